#![feature(allocator_api)]
// U-CONT: src/sort/pair.rs PairContainer::rebuild_contents, src/sort/vec.rs VecContainer::rebuild_contents,
// core-relations/src/containers/mod.rs ContainerRebuildSummary::{changed, note_change, note_dirty_id},
// ContainerValues::expand_dirty_id_closure
use vstd::prelude::*;
use vstd::std_specs::cmp::*;
use vstd::std_specs::iter::IteratorSpec;
verus! {
//@ include prelude/numeric_id.vs
broadcast use {nid::ax_id_eq, nid::ax_id_cmp, nid::ax_id_obeys_eq, nid::ax_id_obeys_cmp, nid::ax_id_obeys_partial_cmp, nid::ax_id_partial_cmp};
//@ idtype Value ContainerValueId

// ---- trusted environment ---------------------------------------------------------------------------
/// what a ValueRebuilder maps a value to (uninterpreted; `rebuild_val` is a pure function of the rebuilder and the value)
pub uninterp spec fn rb<R: ?Sized>(r: &R, v: Value) -> Value;

//@ impl core-relations/src/table_spec.rs trait ValueRebuilder : Send + Sync
//@ fn rebuild_val
//@ ret r
//@ at sig
        ensures r == rb(self, val)
//@ end-fn
//@ fn rebuild_slice
//@ ret r
//@ rewrite R-ITERMUT 0
//@ at sig
        ensures
            final(vals)@.len() == old(vals)@.len(),
            forall|i: int| 0 <= i < old(vals)@.len() ==> #[trigger] final(vals)@[i] == rb(self, old(vals)@[i]),
            r == exists|i: int| 0 <= i < old(vals)@.len() && rb(self, #[trigger] old(vals)@[i]) != old(vals)@[i],
//@ at loop 0 spec
            invariant
                __j0 <= __n0,
                __n0 == vals@.len(),
                vals@.len() == old(vals)@.len(),
                forall|i: int| 0 <= i < __j0 ==> #[trigger] vals@[i] == rb(self, old(vals)@[i]),
                forall|i: int| __j0 <= i < __n0 ==> #[trigger] vals@[i] == old(vals)@[i],
                changed == exists|i: int| 0 <= i < __j0 && rb(self, #[trigger] old(vals)@[i]) != old(vals)@[i],
            decreases __n0 - __j0,
//@ end-fn
//@ end-impl

//@ item src/sort/pair.rs struct PairContainer
//@ item src/sort/vec.rs struct VecContainer

//@ impl src/sort/pair.rs impl ContainerValue for PairContainer => impl PairContainer
//@ fn rebuild_contents
//@ ret r
//@ rewrite R-BOOLOP changed
//@ at sig
        ensures
            final(self).first == (if old(self).do_rebuild_first { rb(rebuilder, old(self).first) } else { old(self).first }),
            final(self).second == (if old(self).do_rebuild_second { rb(rebuilder, old(self).second) } else { old(self).second }),
            final(self).do_rebuild_first == old(self).do_rebuild_first,
            final(self).do_rebuild_second == old(self).do_rebuild_second,
            // the trait's documented obligation: `false` means the container was not modified
            r == (final(self).first != old(self).first || final(self).second != old(self).second),
            !r ==> *final(self) == *old(self),
//@ end-fn
//@ end-impl

//@ impl src/sort/vec.rs impl ContainerValue for VecContainer => impl VecContainer
//@ fn rebuild_contents
//@ ret r
//@ at sig
        ensures
            final(self).do_rebuild == old(self).do_rebuild,
            final(self).data@.len() == old(self).data@.len(),
            forall|i: int| 0 <= i < old(self).data@.len() ==> #[trigger] final(self).data@[i] ==
                (if old(self).do_rebuild { rb(rebuilder, old(self).data@[i]) } else { old(self).data@[i] }),
            r == (old(self).do_rebuild && exists|i: int| 0 <= i < old(self).data@.len() && rb(rebuilder, #[trigger] old(self).data@[i]) != old(self).data@[i]),
            // the trait's documented obligation: `false` means the container was not modified
            !r ==> final(self).data@ =~= old(self).data@,
//@ end-fn
//@ end-impl

// ---- dirty-id closure ------------------------------------------------------------------------------------
/// A-hash: indexmap::IndexSet as a finite set (iteration order is irrelevant to the contract)
#[verifier::external_body]
#[verifier::reject_recursive_types(T)]
pub struct IndexSet<T> { _p: core::marker::PhantomData<T> }
#[verifier::external_body]
#[verifier::reject_recursive_types(T)]
pub struct SetIter<T> { _p: core::marker::PhantomData<T> }
pub trait VcFromSet<T>: Sized { spec fn vc_view(&self) -> Set<T>; }
impl<T> VcFromSet<T> for IndexSet<T> { open spec fn vc_view(&self) -> Set<T> { self@ } }
impl<T> IndexSet<T> {
    pub uninterp spec fn view(&self) -> Set<T>;
    #[verifier::external_body]
    pub fn default() -> (r: Self) ensures r@ == Set::<T>::empty() { unimplemented!() }
    #[verifier::external_body]
    pub fn clone(&self) -> (r: Self) ensures r@ == self@ { unimplemented!() }
    #[verifier::external_body]
    pub fn is_empty(&self) -> (r: bool) ensures r == (forall|x: T| !self@.contains(x)) { unimplemented!() }
    #[verifier::external_body]
    pub fn insert(&mut self, v: T) -> (r: bool) ensures final(self)@ == old(self)@.insert(v), r == !old(self)@.contains(v) { unimplemented!() }
    #[verifier::external_body]
    pub fn clear(&mut self) ensures final(self)@ == Set::<T>::empty() { unimplemented!() }
    #[verifier::external_body]
    pub fn iter(&self) -> (r: SetIter<T>) ensures r@ == self@ { unimplemented!() }
    /// the elements, each once (see R-INTOVEC)
    #[verifier::external_body]
    pub fn vc_into_vec(self) -> (r: Vec<T>) ensures forall|x: T| r@.contains(x) <==> self@.contains(x) { unimplemented!() }
}
impl<T> SetIter<T> {
    pub uninterp spec fn view(&self) -> Set<T>;
    #[verifier::external_body]
    pub fn copied(self) -> (r: SetIter<T>) ensures r@ == self@ { unimplemented!() }
    #[verifier::external_body]
    pub fn collect<B: VcFromSet<T>>(self) -> (r: B) ensures r.vc_view() == self@ { unimplemented!() }
}

/// A-db: one container environment: `contains(c, v)` = container id c directly contains value v
/// (ContainerEnv::val_index, populated from ContainerValue::iter)
pub trait DynamicContainerEnv {
    spec fn contains(&self, c: Value, v: Value) -> bool;
    fn extend_containers_containing(&self, values: &IndexSet<Value>, out: &mut IndexSet<Value>)
        ensures forall|c: Value| final(out)@.contains(c) <==> (old(out)@.contains(c) || exists|v: Value| values@.contains(v) && self.contains(c, v));
}

#[verifier::external_body]
#[verifier::reject_recursive_types(K)]
#[verifier::reject_recursive_types(V)]
pub struct DenseIdMap<K, V> { _p: core::marker::PhantomData<(K, V)> }
impl<K, V> DenseIdMap<K, V> {
    pub uninterp spec fn view(&self) -> Seq<(K, V)>;
    #[verifier::external_body]
    pub fn iter(&self) -> (r: &Vec<(K, V)>) ensures r@ == self.view() { unimplemented!() }
}

//@ item core-relations/src/containers/mod.rs struct ContainerRebuildSummary
//@ item core-relations/src/containers/mod.rs struct ContainerValues only data dropauto

impl ContainerValues {
    /// c directly contains v in some registered container type
    pub open spec fn parent_of(&self, c: Value, v: Value) -> bool {
        exists|i: int| 0 <= i < self.data.view().len() && #[trigger] self.data.view()[i].1.contains(c, v)
    }
    pub open spec fn parents_upto(&self, n: int, c: Value, f: Set<Value>) -> bool {
        exists|i: int, v: Value| 0 <= i < n && f.contains(v) && #[trigger] self.data.view()[i].1.contains(c, v)
    }
}

//@ impl core-relations/src/containers/mod.rs impl ContainerRebuildSummary
//@ fn changed
//@ ret r
//@ at sig
        ensures r == self.changed,
//@ end-fn
//@ fn note_change
//@ at sig
        ensures final(self).changed, final(self).dirty_ids@ == old(self).dirty_ids@,
//@ end-fn
//@ fn note_dirty_id
//@ at sig
        ensures final(self).changed, final(self).dirty_ids@ == old(self).dirty_ids@.insert(value),
//@ end-fn
//@ end-impl

//@ impl core-relations/src/containers/mod.rs impl ContainerValues
//@ fn expand_dirty_id_closure
//@ rewrite R-ITER 1
//@ rewrite R-INTOVEC 2
//@ rewrite R-ITER 2
//@ at attr
    #[verifier::exec_allows_no_decreases_clause]
//@ at sig
        ensures
            // nothing is lost ...
            forall|v: Value| old(summary).dirty_ids@.contains(v) ==> final(summary).dirty_ids@.contains(v),
            // ... and the result is closed under "is directly contained in": every container that contains a dirty id is dirty
            forall|c: Value, v: Value| final(summary).dirty_ids@.contains(v) && self.parent_of(c, v) ==> final(summary).dirty_ids@.contains(c),
            // `changed` is raised whenever an id was added
            old(summary).changed ==> final(summary).changed,
            (exists|v: Value| final(summary).dirty_ids@.contains(v) && !old(summary).dirty_ids@.contains(v)) ==> final(summary).changed,
//@ at loop 0 spec
            invariant
                seen@ == summary.dirty_ids@,
                forall|v: Value| #![trigger old(summary).dirty_ids@.contains(v)] old(summary).dirty_ids@.contains(v) ==> seen@.contains(v),
                forall|v: Value| #![trigger frontier@.contains(v)] frontier@.contains(v) ==> seen@.contains(v),
                forall|c: Value, v: Value| seen@.contains(v) && !frontier@.contains(v) && self.parent_of(c, v) ==> seen@.contains(c),
                old(summary).changed ==> summary.changed,
                (exists|v: Value| summary.dirty_ids@.contains(v) && !old(summary).dirty_ids@.contains(v)) ==> summary.changed,
//@ at before-loop 1
            #[verifier::loop_isolation(false)]
//@ at loop 1 spec
                invariant
                    forall|c: Value| next@.contains(c) <==> self.parents_upto(__it1.index@ as int, c, frontier@),
//@ at before-loop 2
            let ghost seen0 = seen@;
            let ghost n0 = next@;
            proof {
                assert forall|c: Value, v: Value| frontier_in.contains(v) && self.parent_of(c, v) implies n0.contains(c) by {
                    let i = choose|i: int| 0 <= i < self.data.view().len() && #[trigger] self.data.view()[i].1.contains(c, v);
                    assert(self.parents_upto(self.data.view().len() as int, c, frontier_in));
                }
            }
            #[verifier::loop_isolation(false)]
//@ at loop 2 spec
                invariant
                    forall|x: Value| __it2.snapshot@.remaining().contains(x) <==> n0.contains(x),
                    seen@ == summary.dirty_ids@,
                    forall|x: Value| #![trigger seen0.contains(x)] seen0.contains(x) ==> seen@.contains(x),
                    forall|x: Value| #![trigger frontier@.contains(x)] frontier@.contains(x) ==> seen@.contains(x) && !seen0.contains(x),
                    forall|x: Value| #![trigger seen@.contains(x)] seen@.contains(x) && !seen0.contains(x) ==> frontier@.contains(x),
                    forall|k: int| 0 <= k < __it2.index@ ==> seen@.contains(#[trigger] __it2.snapshot@.remaining()[k]),
                    old(summary).changed ==> summary.changed,
                    (exists|v: Value| summary.dirty_ids@.contains(v) && !old(summary).dirty_ids@.contains(v)) ==> summary.changed,
                ensures
                    forall|x: Value| #![trigger n0.contains(x)] n0.contains(x) ==> seen@.contains(x),
//@ at loop 0 body-start
            let ghost seen_in = seen@;
            let ghost frontier_in = frontier@;
//@ at loop 0 body-end
            proof {
                assert forall|c: Value, v: Value| seen@.contains(v) && !frontier@.contains(v) && self.parent_of(c, v) implies seen@.contains(c) by {
                    if seen_in.contains(v) {
                        if frontier_in.contains(v) {
                            let i = choose|i: int| 0 <= i < self.data.view().len() && #[trigger] self.data.view()[i].1.contains(c, v);
                            assert(self.parents_upto(self.data.view().len() as int, c, frontier_in));
                        }
                    }
                }
            }
//@ end-fn
//@ end-impl

// ---- reporting a container rebuilt in place as dirty (incremental rebuild path) ----------------------------
use std::hash::Hash;
pub trait ContainerValue: Hash + Eq {}
#[verifier::external_body]
pub struct ExecutionState { _p: core::marker::PhantomData<u8> }
/// A-hash: dashmap::DashMap (only `remove` is used by the function under contract)
#[verifier::external_body]
#[verifier::accept_recursive_types(K)]
#[verifier::accept_recursive_types(V)]
pub struct DashMap<K, V> { _p: core::marker::PhantomData<(K, V)> }
impl<K, V> DashMap<K, V> {
    #[verifier::external_body]
    pub fn remove(&self, k: &K) -> Option<(K, V)> { unimplemented!() }
}

//@ item core-relations/src/containers/mod.rs struct ContainerEnv only to_id to_container

/// A-db: the id under which `insert_owned` leaves the container (hash-consing + merge of ids)
pub uninterp spec fn inserted_id<C>(c: C, value: Value) -> Value;
impl<C: ContainerValue> ContainerEnv<C> {
    #[verifier::external_body]
    pub fn insert_owned(&self, container: C, value: Value, exec_state: &mut ExecutionState) -> (r: Value)
        ensures r == inserted_id(container, value)
    { unimplemented!() }
}

//@ impl core-relations/src/containers/mod.rs impl<C: ContainerValue> ContainerEnv<C>
//@ fn reinsert_incremental
//@ at sig
        ensures
            forall|v: Value| old(summary).dirty_ids@.contains(v) ==> final(summary).dirty_ids@.contains(v),
            old(summary).changed ==> final(summary).changed,
            container_changed || rebuilt_id != old_id ==> final(summary).changed,
            // C14/C03: a container whose contents were rebuilt IN PLACE (same id before and after re-interning) produces no
            // ordinary table delta, so it must be reported dirty for its parent rows to be re-timestamped
            container_changed && rebuilt_id == old_id && inserted_id(container, rebuilt_id) == old_id ==> final(summary).dirty_ids@.contains(old_id),
//@ end-fn
//@ end-impl

} // verus!
fn main() {}
