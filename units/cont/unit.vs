#![feature(allocator_api)]
// U-CONT: src/sort/pair.rs PairContainer::rebuild_contents, src/sort/vec.rs VecContainer::rebuild_contents,
// core-relations/src/containers/mod.rs ContainerRebuildSummary::{changed, note_change, note_dirty_id},
// ContainerValues::expand_dirty_id_closure
use vstd::prelude::*;
use vstd::std_specs::cmp::*;
use vstd::std_specs::iter::IteratorSpec;
verus! {
//@ include prelude/numeric_id.vs
broadcast use {nid::ax_id_eq, nid::ax_id_cmp, nid::ax_id_obeys_eq, nid::ax_id_obeys_cmp, nid::ax_id_obeys_partial_cmp, nid::ax_id_partial_cmp};
//@ idtype Value ContainerValueId

// ---- trusted environment ---------------------------------------------------------------------------
/// what a ValueRebuilder maps a value to (uninterpreted; `rebuild_val` is a pure function of the rebuilder and the value)
pub uninterp spec fn rb<R: ?Sized>(r: &R, v: Value) -> Value;

//@ impl core-relations/src/table_spec.rs trait ValueRebuilder : Send + Sync
//@ fn rebuild_val
//@ ret r
//@ at sig
        ensures r == rb(self, val)
//@ end-fn
//@ fn rebuild_slice
//@ ret r
//@ rewrite R-ITERMUT 0
//@ at sig
        ensures
            final(vals)@.len() == old(vals)@.len(),
            forall|i: int| 0 <= i < old(vals)@.len() ==> #[trigger] final(vals)@[i] == rb(self, old(vals)@[i]),
            forall|i: int| 0 <= i < old(vals)@.len() ==> rb(self, #[trigger] old(vals)@[i]) == final(vals)@[i],
            r == exists|i: int| 0 <= i < old(vals)@.len() && rb(self, #[trigger] old(vals)@[i]) != old(vals)@[i],
//@ at loop 0 spec
            invariant
                __j0 <= __n0,
                __n0 == vals@.len(),
                vals@.len() == old(vals)@.len(),
                forall|i: int| 0 <= i < __j0 ==> #[trigger] vals@[i] == rb(self, old(vals)@[i]),
                forall|i: int| __j0 <= i < __n0 ==> #[trigger] vals@[i] == old(vals)@[i],
                changed == exists|i: int| 0 <= i < __j0 && rb(self, #[trigger] old(vals)@[i]) != old(vals)@[i],
            decreases __n0 - __j0,
//@ end-fn
//@ end-impl

//@ item src/sort/pair.rs struct PairContainer
//@ item src/sort/vec.rs struct VecContainer

//@ impl src/sort/pair.rs impl ContainerValue for PairContainer => impl PairContainer
//@ fn rebuild_contents
//@ ret r
//@ rewrite R-BOOLOP changed
//@ at sig
        ensures
            final(self).first == (if old(self).do_rebuild_first { rb(rebuilder, old(self).first) } else { old(self).first }),
            final(self).second == (if old(self).do_rebuild_second { rb(rebuilder, old(self).second) } else { old(self).second }),
            final(self).do_rebuild_first == old(self).do_rebuild_first,
            final(self).do_rebuild_second == old(self).do_rebuild_second,
            // the trait's documented obligation: `false` means the container was not modified
            r == (final(self).first != old(self).first || final(self).second != old(self).second),
            !r ==> *final(self) == *old(self),
//@ end-fn
//@ end-impl

//@ impl src/sort/vec.rs impl ContainerValue for VecContainer => impl VecContainer
//@ fn rebuild_contents
//@ ret r
//@ at sig
        ensures
            final(self).do_rebuild == old(self).do_rebuild,
            final(self).data@.len() == old(self).data@.len(),
            forall|i: int| 0 <= i < old(self).data@.len() ==> #[trigger] final(self).data@[i] ==
                (if old(self).do_rebuild { rb(rebuilder, old(self).data@[i]) } else { old(self).data@[i] }),
            r == (old(self).do_rebuild && exists|i: int| 0 <= i < old(self).data@.len() && rb(rebuilder, #[trigger] old(self).data@[i]) != old(self).data@[i]),
            // the trait's documented obligation: `false` means the container was not modified
            !r ==> final(self).data@ =~= old(self).data@,
//@ end-fn
//@ end-impl

// ---- Set / MultiSet containers (src/sort/set.rs, src/sort/multiset.rs) --------------------------------------
/// A-std: the element stream of a std/egglog ordered collection: `iter().copied()` yields the sequence `view()`
#[verifier::external_body]
#[verifier::reject_recursive_types(T)]
pub struct ElemIter<T> { _p: core::marker::PhantomData<T> }
pub trait VcFromElems<T>: Sized { spec fn vc_elems(&self) -> Seq<T>; }
impl<T> VcFromElems<T> for Vec<T> { open spec fn vc_elems(&self) -> Seq<T> { self@ } }
impl<T> ElemIter<T> {
    pub uninterp spec fn view(&self) -> Seq<T>;
    #[verifier::external_body]
    pub fn copied(self) -> (r: ElemIter<T>) ensures r@ == self@ { unimplemented!() }
    #[verifier::external_body]
    pub fn collect<B: VcFromElems<T>>(self) -> (r: B) ensures r.vc_elems() == self@ { unimplemented!() }
}
/// what `FromIterator::from_iter` over a vector builds (R-INTOCOLLECT); assumed per target collection
pub trait VcFromVec<T>: Sized { spec fn vc_built_from(&self, s: Seq<T>) -> bool; }
#[verifier::external_body]
pub fn vc_collect_vec<T, B: VcFromVec<T>>(v: Vec<T>) -> (r: B) ensures r.vc_built_from(v@) { unimplemented!() }

/// A-std: std::collections::BTreeSet as a finite set; iteration yields every element (exactly once)
#[verifier::external_body]
#[verifier::reject_recursive_types(T)]
pub struct BTreeSet<T> { _p: core::marker::PhantomData<T> }
impl<T> BTreeSet<T> {
    pub uninterp spec fn view(&self) -> Set<T>;
    #[verifier::external_body]
    pub fn iter(&self) -> (r: ElemIter<T>)
        ensures
            forall|i: int| 0 <= i < r@.len() ==> self@.contains(#[trigger] r@[i]),
            forall|x: T| #[trigger] self@.contains(x) ==> exists|i: int| 0 <= i < r@.len() && r@[i] == x,
    { unimplemented!() }
}
impl<T> VcFromVec<T> for BTreeSet<T> {
    open spec fn vc_built_from(&self, s: Seq<T>) -> bool {
        &&& forall|i: int| 0 <= i < s.len() ==> self@.contains(#[trigger] s[i])
        &&& forall|x: T| #[trigger] self@.contains(x) ==> exists|i: int| 0 <= i < s.len() && s[i] == x
    }
}
/// A-db: egglog's `inner::MultiSet` (BTreeMap<T, usize> + cached length) as a multiset; iteration yields every element
/// with its multiplicity, `from_iter` inserts every element once (src/sort/multiset.rs:1007)
#[verifier::external_body]
#[verifier::reject_recursive_types(T)]
pub struct MultiSet<T> { _p: core::marker::PhantomData<T> }
impl<T> MultiSet<T> {
    pub uninterp spec fn view(&self) -> vstd::multiset::Multiset<T>;
    #[verifier::external_body]
    pub fn iter(&self) -> (r: ElemIter<T>)
        ensures
            r@.to_multiset() == self@,
            // consequences of the line above (vstd to_multiset_ensures), stated so that callers need no hint
            forall|i: int| 0 <= i < r@.len() ==> self@.count(#[trigger] r@[i]) > 0,
            forall|x: T| #[trigger] self@.count(x) > 0 ==> exists|i: int| 0 <= i < r@.len() && r@[i] == x,
    { unimplemented!() }
}
impl<T> VcFromVec<T> for MultiSet<T> {
    open spec fn vc_built_from(&self, s: Seq<T>) -> bool { self@ == s.to_multiset() }
}

//@ item src/sort/set.rs struct SetContainer
//@ item src/sort/multiset.rs struct MultiSetContainer

//@ impl src/sort/set.rs impl ContainerValue for SetContainer => impl SetContainer
//@ fn rebuild_contents
//@ ret r
//@ rewrite R-INTOCOLLECT
//@ at sig
        ensures
            final(self).do_rebuild == old(self).do_rebuild,
            // the new set is the image of the old one under the rebuilder (elements that become equal collapse)
            old(self).do_rebuild ==> (forall|y: Value| #[trigger] final(self).data@.contains(y) <==> exists|x: Value| old(self).data@.contains(x) && rb(rebuilder, x) == y),
            !old(self).do_rebuild ==> final(self).data@ == old(self).data@,
            r == (old(self).do_rebuild && exists|x: Value| old(self).data@.contains(x) && rb(rebuilder, x) != x),
            // the trait's documented obligation: `false` means the container was not modified
            !r ==> final(self).data@ =~= old(self).data@,
//@ end-fn
//@ end-impl

//@ impl src/sort/multiset.rs impl ContainerValue for MultiSetContainer => impl MultiSetContainer
//@ fn rebuild_contents
//@ ret r
//@ rewrite R-INTOCOLLECT
//@ at sig
        ensures
            final(self).do_rebuild == old(self).do_rebuild,
            // the new multiset is the image of the old one, multiplicities added up: some enumeration s of the old
            // multiset is mapped element by element
            old(self).do_rebuild ==> exists|s: Seq<Value>, t: Seq<Value>| #![trigger s.to_multiset(), t.to_multiset()]
                s.to_multiset() == old(self).data@ && t.to_multiset() == final(self).data@
                && t.len() == s.len() && forall|i: int| 0 <= i < s.len() ==> #[trigger] t[i] == rb(rebuilder, s[i]),
            !old(self).do_rebuild ==> final(self).data@ == old(self).data@,
            r == (old(self).do_rebuild && exists|x: Value| old(self).data@.count(x) > 0 && rb(rebuilder, x) != x),
//@ end-fn
//@ end-impl

// ---- Map container (src/sort/map.rs) -------------------------------------------------------------------------
/// A-std: std::collections::BTreeMap as a finite map with an iteration order `order()` over its keys
#[verifier::external_body]
#[verifier::reject_recursive_types(K)]
#[verifier::reject_recursive_types(V)]
pub struct BTreeMap<K, V> { _p: core::marker::PhantomData<(K, V)> }
impl<K, V> BTreeMap<K, V> {
    pub uninterp spec fn view(&self) -> Map<K, V>;
    /// the keys in iteration order, each once
    pub uninterp spec fn order(&self) -> Seq<K>;
    pub open spec fn ordered(&self) -> bool {
        &&& forall|i: int, j: int| 0 <= i < j < self.order().len() ==> self.order()[i] != self.order()[j]
        &&& forall|i: int| 0 <= i < self.order().len() ==> self@.dom().contains(#[trigger] self.order()[i])
        &&& forall|k: K| #[trigger] self@.dom().contains(k) ==> exists|i: int| 0 <= i < self.order().len() && self.order()[i] == k
    }
    /// the entries that `iter()` yields (see R-MAPCOLLECT via=)
    #[verifier::external_body]
    pub fn vc_entries(&self) -> (r: &Vec<(K, V)>)
        ensures
            self.ordered(),
            r@.len() == self.order().len(),
            forall|i: int| 0 <= i < r@.len() ==> (#[trigger] r@[i]).0 == self.order()[i] && r@[i].1 == self@[self.order()[i]],
    { unimplemented!() }
    /// the values that `values_mut()` yields, in key order; writing through them changes exactly those values (R-ITERMUT)
    #[verifier::external_body]
    pub fn vc_values_mut(&mut self) -> (r: &mut Vec<V>)
        ensures
            old(self).ordered(),
            r@.len() == old(self).order().len(),
            forall|i: int| 0 <= i < r@.len() ==> #[trigger] r@[i] == old(self)@[old(self).order()[i]],
            final(r)@.len() == r@.len() ==> {
                &&& final(self).order() == old(self).order()
                &&& final(self)@.dom() == old(self)@.dom()
                &&& forall|i: int| 0 <= i < r@.len() ==> final(self)@[#[trigger] old(self).order()[i]] == final(r)@[i]
            },
    { unimplemented!() }
}
impl<K, V> VcFromVec<(K, V)> for BTreeMap<K, V> {
    /// FromIterator for BTreeMap: the keys are those of the pairs; every key carries the value of one of its pairs
    /// (the last one - not needed: which value survives a key collision is outside the claim of C14)
    open spec fn vc_built_from(&self, s: Seq<(K, V)>) -> bool {
        &&& forall|i: int| 0 <= i < s.len() ==> self@.dom().contains((#[trigger] s[i]).0)
        &&& forall|k: K| #[trigger] self@.dom().contains(k) ==> exists|i: int| 0 <= i < s.len() && s[i].0 == k && s[i].1 == self@[k]
    }
}

//@ item src/sort/map.rs struct MapContainer
pub open spec fn mk<R: ?Sized>(r: &R, flag: bool, v: Value) -> Value { if flag { rb(r, v) } else { v } }

//@ impl src/sort/map.rs impl ContainerValue for MapContainer => impl MapContainer
//@ fn rebuild_contents
//@ ret r
//@ rewrite R-RENAME old oldv
//@ rewrite R-BOOLOP changed
//@ rewrite R-MAPCOLLECT pat via=vc_entries into ty=(Value,Value) rty=BTreeMap<Value,Value>
//@ rewrite R-ITERMUT 0
//@ at sig
        ensures
            final(self).do_rebuild_keys == old(self).do_rebuild_keys,
            final(self).do_rebuild_vals == old(self).do_rebuild_vals,
            // the new key set is the image of the old one under the rebuilder (when keys are rebuilt) ...
            forall|k2: Value| #[trigger] final(self).data@.dom().contains(k2) <==>
                exists|k: Value| old(self).data@.dom().contains(k) && mk(rebuilder, old(self).do_rebuild_keys, k) == k2,
            // ... and every key carries the rebuilt value of (one of) the old key(s) it comes from; which one survives a
            // key collision is outside the claim of C14
            forall|k2: Value| #[trigger] final(self).data@.dom().contains(k2) ==>
                exists|k: Value| old(self).data@.dom().contains(k) && mk(rebuilder, old(self).do_rebuild_keys, k) == k2
                    && final(self).data@[k2] == mk(rebuilder, old(self).do_rebuild_vals, old(self).data@[k]),
            // `changed` is reported only for a real change, always for a changed key, and always for a changed value when
            // keys are left alone
            r ==> exists|k: Value| old(self).data@.dom().contains(k) && ((old(self).do_rebuild_keys && rb(rebuilder, k) != k)
                    || (old(self).do_rebuild_vals && rb(rebuilder, old(self).data@[k]) != old(self).data@[k])),
            old(self).do_rebuild_keys && (exists|k: Value| old(self).data@.dom().contains(k) && rb(rebuilder, k) != k) ==> r,
            !old(self).do_rebuild_keys && old(self).do_rebuild_vals
                && (exists|k: Value| old(self).data@.dom().contains(k) && rb(rebuilder, old(self).data@[k]) != old(self).data@[k]) ==> r,
            // the trait's documented obligation: `false` means the container was not modified
            !r ==> final(self).data@ =~= old(self).data@,
//@ at entry
        let ghost m0 = self.data@;
        let ghost mut mid = self.data@;   // the map after the key pass
        let ghost mut cmid = false;       // `changed` after the key pass
//@ at mapcollect 0 spec
                invariant
                    __k0 <= __src0@.len(),
                    __v0@.len() == __k0,
                    forall|i: int| 0 <= i < __k0 ==> (#[trigger] __v0@[i]).0 == rb(rebuilder, __src0@[i].0) && __v0@[i].1 == __src0@[i].1,
                    changed == exists|i: int| 0 <= i < __k0 && rb(rebuilder, (#[trigger] __src0@[i]).0) != __src0@[i].0,
                decreases __src0@.len() - __k0,
//@ at mapcollect 0 after-collect
            proof {
                // K: what re-collecting the pairs with rebuilt keys gives (m1), in terms of the map before (m0)
                let m1 = __r0@;
                let ord = self.data.order();
                assert(self.data@ == m0);
                assert forall|k2: Value| #[trigger] m1.dom().contains(k2) implies
                    exists|k: Value| m0.dom().contains(k) && rb(rebuilder, k) == k2 && m1[k2] == m0[k] by {
                    let i = choose|i: int| 0 <= i < __v0@.len() && __v0@[i].0 == k2 && __v0@[i].1 == m1[k2];
                    assert(__src0@[i].0 == ord[i]);
                    assert(m0.dom().contains(ord[i]));
                }
                assert forall|k: Value| #[trigger] m0.dom().contains(k) implies m1.dom().contains(rb(rebuilder, k)) by {
                    let i = choose|i: int| 0 <= i < ord.len() && ord[i] == k;
                    assert(__src0@[i].0 == k);
                    assert(__v0@[i].0 == rb(rebuilder, k));
                }
                assert(changed == exists|k: Value| m0.dom().contains(k) && rb(rebuilder, k) != k) by {
                    if changed {
                        let i = choose|i: int| 0 <= i < __src0@.len() && rb(rebuilder, (#[trigger] __src0@[i]).0) != __src0@[i].0;
                        assert(m0.dom().contains(ord[i]));
                    }
                    if exists|k: Value| m0.dom().contains(k) && rb(rebuilder, k) != k {
                        let k = choose|k: Value| m0.dom().contains(k) && rb(rebuilder, k) != k;
                        let i = choose|i: int| 0 <= i < ord.len() && ord[i] == k;
                        assert(__src0@[i].0 == k);
                    }
                }
                if !changed {
                    assert forall|k: Value| m0.dom().contains(k) implies #[trigger] m1.dom().contains(k) && m1[k] == m0[k] by {
                        assert(m1.dom().contains(rb(rebuilder, k)));
                        let i = choose|i: int| 0 <= i < __v0@.len() && __v0@[i].0 == k && __v0@[i].1 == m1[k];
                        assert(__src0@[i].0 == ord[i]);
                    }
                    assert forall|k: Value| m1.dom().contains(k) implies #[trigger] m0.dom().contains(k) by {
                        let i = choose|i: int| 0 <= i < __v0@.len() && __v0@[i].0 == k && __v0@[i].1 == m1[k];
                        assert(__src0@[i].0 == ord[i]);
                        assert(m0.dom().contains(ord[i]));
                    }
                    assert(m1 =~= m0);
                }
                mid = m1;
                cmid = changed;
            }
//@ at before-loop 0
            let ghost m1 = self.data@;
            let ghost ord1 = self.data.order();
            let ghost c1 = changed;
//@ at loop 0 spec
                invariant
                    __j0 <= __n0,
                    __n0 == __vm0@.len(),
                    __n0 == ord1.len(),
                    forall|i: int| 0 <= i < __j0 ==> #[trigger] __vm0@[i] == rb(rebuilder, m1[ord1[i]]),
                    forall|i: int| __j0 <= i < __n0 ==> #[trigger] __vm0@[i] == m1[ord1[i]],
                    changed == (c1 || exists|i: int| 0 <= i < __j0 && rb(rebuilder, m1[#[trigger] ord1[i]]) != m1[ord1[i]]),
                decreases __n0 - __j0,
//@ at after-loop 0
            proof {
                let m2 = self.data@;
                assert(m2.dom() == m1.dom());
                assert forall|k: Value| #[trigger] m1.dom().contains(k) implies m2[k] == rb(rebuilder, m1[k]) by {
                    let i = choose|i: int| 0 <= i < ord1.len() && ord1[i] == k;
                    assert(m2[ord1[i]] == __vm0@[i]);
                }
                assert(changed == (c1 || exists|k: Value| m1.dom().contains(k) && rb(rebuilder, m1[k]) != m1[k])) by {
                    if exists|i: int| 0 <= i < __n0 && rb(rebuilder, m1[#[trigger] ord1[i]]) != m1[ord1[i]] {
                        let i = choose|i: int| 0 <= i < __n0 && rb(rebuilder, m1[#[trigger] ord1[i]]) != m1[ord1[i]];
                        assert(m1.dom().contains(ord1[i]));
                    }
                    if exists|k: Value| m1.dom().contains(k) && rb(rebuilder, m1[k]) != m1[k] {
                        let k = choose|k: Value| m1.dom().contains(k) && rb(rebuilder, m1[k]) != m1[k];
                        let i = choose|i: int| 0 <= i < ord1.len() && ord1[i] == k;
                    }
                }
                if !changed { assert(m2 =~= m1); }
            }
//@ at tail
        proof {
            let mf = self.data@;
            let fk = old(self).do_rebuild_keys;
            let fv = old(self).do_rebuild_vals;
            assert(cmid == (fk && exists|k: Value| m0.dom().contains(k) && rb(rebuilder, k) != k));
            assert(!cmid ==> mid =~= m0);
            assert forall|k2: Value| #[trigger] mid.dom().contains(k2) implies
                exists|k: Value| m0.dom().contains(k) && mk(rebuilder, fk, k) == k2 && mid[k2] == m0[k] by {
                if !fk { assert(mid == m0); assert(m0.dom().contains(k2) && mk(rebuilder, fk, k2) == k2 && mid[k2] == m0[k2]); } else {
                    let k = choose|k: Value| m0.dom().contains(k) && rb(rebuilder, k) == k2 && mid[k2] == m0[k];
                    assert(m0.dom().contains(k) && rb(rebuilder, k) == k2 && mid[k2] == m0[k]);
                    assert(mk(rebuilder, fk, k) == k2);
                }
            }
            assert forall|k: Value| #[trigger] m0.dom().contains(k) implies mid.dom().contains(mk(rebuilder, fk, k)) by {}
            assert(mf.dom() == mid.dom());
            assert forall|k: Value| #[trigger] mid.dom().contains(k) implies mf[k] == mk(rebuilder, fv, mid[k]) by {}
            assert forall|k2: Value| #[trigger] mf.dom().contains(k2) implies
                exists|k: Value| m0.dom().contains(k) && mk(rebuilder, fk, k) == k2 && mf[k2] == mk(rebuilder, fv, m0[k]) by {
                assert(mid.dom().contains(k2));
                let k = choose|k: Value| m0.dom().contains(k) && mk(rebuilder, fk, k) == k2 && mid[k2] == m0[k];
                assert(mf[k2] == mk(rebuilder, fv, mid[k2]));
            }
        }
//@ end-fn
//@ end-impl

// ---- dirty-id closure ------------------------------------------------------------------------------------
/// A-hash: indexmap::IndexSet as a finite set (iteration order is irrelevant to the contract)
#[verifier::external_body]
#[verifier::reject_recursive_types(T)]
pub struct IndexSet<T> { _p: core::marker::PhantomData<T> }
#[verifier::external_body]
#[verifier::reject_recursive_types(T)]
pub struct SetIter<T> { _p: core::marker::PhantomData<T> }
pub trait VcFromSet<T>: Sized { spec fn vc_view(&self) -> Set<T>; }
impl<T> VcFromSet<T> for IndexSet<T> { open spec fn vc_view(&self) -> Set<T> { self@ } }
impl<T> IndexSet<T> {
    pub uninterp spec fn view(&self) -> Set<T>;
    #[verifier::external_body]
    pub fn default() -> (r: Self) ensures r@ == Set::<T>::empty() { unimplemented!() }
    #[verifier::external_body]
    pub fn clone(&self) -> (r: Self) ensures r@ == self@ { unimplemented!() }
    #[verifier::external_body]
    pub fn is_empty(&self) -> (r: bool) ensures r == (forall|x: T| !self@.contains(x)) { unimplemented!() }
    #[verifier::external_body]
    pub fn insert(&mut self, v: T) -> (r: bool) ensures final(self)@ == old(self)@.insert(v), r == !old(self)@.contains(v) { unimplemented!() }
    #[verifier::external_body]
    pub fn clear(&mut self) ensures final(self)@ == Set::<T>::empty() { unimplemented!() }
    #[verifier::external_body]
    pub fn iter(&self) -> (r: SetIter<T>) ensures r@ == self@ { unimplemented!() }
    /// the elements, each once (see R-INTOVEC)
    #[verifier::external_body]
    pub fn vc_into_vec(self) -> (r: Vec<T>) ensures forall|x: T| r@.contains(x) <==> self@.contains(x) { unimplemented!() }
}
impl<T> SetIter<T> {
    pub uninterp spec fn view(&self) -> Set<T>;
    #[verifier::external_body]
    pub fn copied(self) -> (r: SetIter<T>) ensures r@ == self@ { unimplemented!() }
    #[verifier::external_body]
    pub fn collect<B: VcFromSet<T>>(self) -> (r: B) ensures r.vc_view() == self@ { unimplemented!() }
}

/// A-db: one container environment: `contains(c, v)` = container id c directly contains value v
/// (ContainerEnv::val_index, populated from ContainerValue::iter)
pub trait DynamicContainerEnv {
    spec fn contains(&self, c: Value, v: Value) -> bool;
    fn extend_containers_containing(&self, values: &IndexSet<Value>, out: &mut IndexSet<Value>)
        ensures forall|c: Value| final(out)@.contains(c) <==> (old(out)@.contains(c) || exists|v: Value| values@.contains(v) && self.contains(c, v));
}

#[verifier::external_body]
#[verifier::reject_recursive_types(K)]
#[verifier::reject_recursive_types(V)]
pub struct DenseIdMap<K, V> { _p: core::marker::PhantomData<(K, V)> }
impl<K, V> DenseIdMap<K, V> {
    pub uninterp spec fn view(&self) -> Seq<(K, V)>;
    #[verifier::external_body]
    pub fn iter(&self) -> (r: &Vec<(K, V)>) ensures r@ == self.view() { unimplemented!() }
}

//@ item core-relations/src/containers/mod.rs struct ContainerRebuildSummary
//@ item core-relations/src/containers/mod.rs struct ContainerValues only data dropauto

impl ContainerValues {
    /// c directly contains v in some registered container type
    pub open spec fn parent_of(&self, c: Value, v: Value) -> bool {
        exists|i: int| 0 <= i < self.data.view().len() && #[trigger] self.data.view()[i].1.contains(c, v)
    }
    pub open spec fn parents_upto(&self, n: int, c: Value, f: Set<Value>) -> bool {
        exists|i: int, v: Value| 0 <= i < n && f.contains(v) && #[trigger] self.data.view()[i].1.contains(c, v)
    }
}

//@ impl core-relations/src/containers/mod.rs impl ContainerRebuildSummary
//@ fn changed
//@ ret r
//@ at sig
        ensures r == self.changed,
//@ end-fn
//@ fn note_change
//@ at sig
        ensures final(self).changed, final(self).dirty_ids@ == old(self).dirty_ids@,
//@ end-fn
//@ fn note_dirty_id
//@ at sig
        ensures final(self).changed, final(self).dirty_ids@ == old(self).dirty_ids@.insert(value),
//@ end-fn
//@ end-impl

//@ impl core-relations/src/containers/mod.rs impl ContainerValues
//@ fn expand_dirty_id_closure
//@ rewrite R-ITER 1
//@ rewrite R-INTOVEC 2
//@ rewrite R-ITER 2
//@ at attr
    #[verifier::exec_allows_no_decreases_clause]
//@ at sig
        ensures
            // nothing is lost ...
            forall|v: Value| old(summary).dirty_ids@.contains(v) ==> final(summary).dirty_ids@.contains(v),
            // ... and the result is closed under "is directly contained in": every container that contains a dirty id is dirty
            forall|c: Value, v: Value| final(summary).dirty_ids@.contains(v) && self.parent_of(c, v) ==> final(summary).dirty_ids@.contains(c),
            // `changed` is raised whenever an id was added
            old(summary).changed ==> final(summary).changed,
            (exists|v: Value| final(summary).dirty_ids@.contains(v) && !old(summary).dirty_ids@.contains(v)) ==> final(summary).changed,
//@ at loop 0 spec
            invariant
                seen@ == summary.dirty_ids@,
                forall|v: Value| #![trigger old(summary).dirty_ids@.contains(v)] old(summary).dirty_ids@.contains(v) ==> seen@.contains(v),
                forall|v: Value| #![trigger frontier@.contains(v)] frontier@.contains(v) ==> seen@.contains(v),
                forall|c: Value, v: Value| seen@.contains(v) && !frontier@.contains(v) && self.parent_of(c, v) ==> seen@.contains(c),
                old(summary).changed ==> summary.changed,
                (exists|v: Value| summary.dirty_ids@.contains(v) && !old(summary).dirty_ids@.contains(v)) ==> summary.changed,
//@ at before-loop 1
            #[verifier::loop_isolation(false)]
//@ at loop 1 spec
                invariant
                    forall|c: Value| next@.contains(c) <==> self.parents_upto(__it1.index@ as int, c, frontier@),
//@ at before-loop 2
            let ghost seen0 = seen@;
            let ghost n0 = next@;
            proof {
                assert forall|c: Value, v: Value| frontier_in.contains(v) && self.parent_of(c, v) implies n0.contains(c) by {
                    let i = choose|i: int| 0 <= i < self.data.view().len() && #[trigger] self.data.view()[i].1.contains(c, v);
                    assert(self.parents_upto(self.data.view().len() as int, c, frontier_in));
                }
            }
            #[verifier::loop_isolation(false)]
//@ at loop 2 spec
                invariant
                    forall|x: Value| __it2.snapshot@.remaining().contains(x) <==> n0.contains(x),
                    seen@ == summary.dirty_ids@,
                    forall|x: Value| #![trigger seen0.contains(x)] seen0.contains(x) ==> seen@.contains(x),
                    forall|x: Value| #![trigger frontier@.contains(x)] frontier@.contains(x) ==> seen@.contains(x) && !seen0.contains(x),
                    forall|x: Value| #![trigger seen@.contains(x)] seen@.contains(x) && !seen0.contains(x) ==> frontier@.contains(x),
                    forall|k: int| 0 <= k < __it2.index@ ==> seen@.contains(#[trigger] __it2.snapshot@.remaining()[k]),
                    old(summary).changed ==> summary.changed,
                    (exists|v: Value| summary.dirty_ids@.contains(v) && !old(summary).dirty_ids@.contains(v)) ==> summary.changed,
                ensures
                    forall|x: Value| #![trigger n0.contains(x)] n0.contains(x) ==> seen@.contains(x),
//@ at loop 0 body-start
            let ghost seen_in = seen@;
            let ghost frontier_in = frontier@;
//@ at loop 0 body-end
            proof {
                assert forall|c: Value, v: Value| seen@.contains(v) && !frontier@.contains(v) && self.parent_of(c, v) implies seen@.contains(c) by {
                    if seen_in.contains(v) {
                        if frontier_in.contains(v) {
                            let i = choose|i: int| 0 <= i < self.data.view().len() && #[trigger] self.data.view()[i].1.contains(c, v);
                            assert(self.parents_upto(self.data.view().len() as int, c, frontier_in));
                        }
                    }
                }
            }
//@ end-fn
//@ end-impl

// ---- reporting a container rebuilt in place as dirty (incremental rebuild path) ----------------------------
use std::hash::Hash;
pub trait ContainerValue: Hash + Eq {}
#[verifier::external_body]
pub struct ExecutionState { _p: core::marker::PhantomData<u8> }
/// A-hash: dashmap::DashMap (only `remove` is used by the function under contract)
#[verifier::external_body]
#[verifier::accept_recursive_types(K)]
#[verifier::accept_recursive_types(V)]
pub struct DashMap<K, V> { _p: core::marker::PhantomData<(K, V)> }
impl<K, V> DashMap<K, V> {
    #[verifier::external_body]
    pub fn remove(&self, k: &K) -> Option<(K, V)> { unimplemented!() }
}

//@ item core-relations/src/containers/mod.rs struct ContainerEnv only to_id to_container

/// A-db: the id under which `insert_owned` leaves the container (hash-consing + merge of ids)
pub uninterp spec fn inserted_id<C>(c: C, value: Value) -> Value;
impl<C: ContainerValue> ContainerEnv<C> {
    #[verifier::external_body]
    pub fn insert_owned(&self, container: C, value: Value, exec_state: &mut ExecutionState) -> (r: Value)
        ensures r == inserted_id(container, value)
    { unimplemented!() }
}

//@ impl core-relations/src/containers/mod.rs impl<C: ContainerValue> ContainerEnv<C>
//@ fn reinsert_incremental
//@ at sig
        ensures
            forall|v: Value| old(summary).dirty_ids@.contains(v) ==> final(summary).dirty_ids@.contains(v),
            old(summary).changed ==> final(summary).changed,
            container_changed || rebuilt_id != old_id ==> final(summary).changed,
            // C14/C03: a container whose contents were rebuilt IN PLACE (same id before and after re-interning) produces no
            // ordinary table delta, so it must be reported dirty for its parent rows to be re-timestamped
            container_changed && rebuilt_id == old_id && inserted_id(container, rebuilt_id) == old_id ==> final(summary).dirty_ids@.contains(old_id),
//@ end-fn
//@ end-impl

} // verus!
fn main() {}
