#![feature(allocator_api)]
// U-INS: core-relations/src/table/mod.rs  SortedWritesTable::serial_insert -- the collision path of C05 / C04 / C16:
// the table stays a keyed map (one live row per key, every live row indexed) and every pending row is applied with
// the merge function: absent key -> the row is stored; present key -> the MERGED row replaces the stored one iff the
// merge function reports a change.
use vstd::prelude::*;
use std::sync::Arc;
use std::cmp;
use vstd::std_specs::cmp::*;
use vstd::std_specs::iter::IteratorSpec;
verus! {
global size_of usize == 8;
//@ include prelude/numeric_id.vs
//@ include prelude/std_extra.vs
broadcast use {nid::ax_id_eq, nid::ax_id_cmp, nid::ax_id_obeys_eq, nid::ax_id_obeys_cmp, nid::ax_id_obeys_partial_cmp, nid::ax_id_partial_cmp, stdx::ax_iter_seq_vec};
//@ idtype Value RowId ColumnId ShardId
//@ idtype64 Generation Offset

#[verifier::external_body]
pub fn vc_panic() -> (r: bool)
    ensures false
{ unimplemented!() }

//@ impl core-relations/src/common.rs impl Value
//@ fn is_stale
//@ ret r
//@ at sig
        ensures r == (self.rep == u32::MAX),
//@ end-fn
//@ end-impl

// ---- trusted environment ---------------------------------------------------------------------------------------
pub open spec fn stale(row: Seq<Value>) -> bool { row.len() > 0 && row[0].rep == u32::MAX }
pub type HashCode = u64;
pub type Pooled<T> = T;
#[verifier::external_body]
pub struct ExecutionState { _p: core::marker::PhantomData<u8> }
#[verifier::external_body]
#[derive(Clone, Copy)]
pub struct ShardData { _p: core::marker::PhantomData<u8> }
#[verifier::external_body]
pub struct PoolSet { _p: core::marker::PhantomData<u8> }
impl PoolSet {
    #[verifier::external_body]
    pub fn get<T>(&self) -> (r: Vec<Value>) ensures r@.len() == 0 { unimplemented!() }
}
// A-db: with_pool_set runs the closure on the thread-local pool set
#[verifier::external_body]
pub fn with_pool_set<R, F: FnOnce(&PoolSet) -> R>(f: F) -> (r: R)
    ensures exists|ps: &PoolSet| f.ensures((ps,), r)
{ unimplemented!() }

/// the hash of a key (what `hash_code` computes over the first n_keys columns)
pub uninterp spec fn hcs(key: Seq<Value>) -> u64;
#[verifier::external_body]
pub fn hash_code(shard_data: ShardData, row: &[Value], n_keys: usize) -> (r: (ShardId, u64))
    requires n_keys <= row@.len()
    ensures r.1 == hcs(row@.subrange(0, n_keys as int))
{ unimplemented!() }

//@ item core-relations/src/table/mod.rs struct TableEntry
impl TableEntry {
    #[verifier::external_body]
    pub fn hashcode(&self) -> (r: u64) ensures r == self.hashcode { unimplemented!() }
}

/// A-hash: the sharded hash table as a map  row id -> stored hash code  (the entries; hashbrown behind it)
#[verifier::external_body]
#[verifier::reject_recursive_types(T)]
pub struct ShardedHashTable<T> { _p: core::marker::PhantomData<T> }
#[verifier::external_body]
pub struct Shards { _p: core::marker::PhantomData<u8> }
#[verifier::external_body]
pub struct Shard { _p: core::marker::PhantomData<u8> }
impl ShardedHashTable<TableEntry> {
    pub uninterp spec fn view(&self) -> Map<RowId, u64>;
    #[verifier::external_body]
    pub fn shard_data(&self) -> ShardData { unimplemented!() }
    #[verifier::external_body]
    pub fn clear(&mut self) ensures final(self)@ == Map::<RowId, u64>::empty() { unimplemented!() }
    // every level of `mut_shards()[i]` is viewed as the whole map: the shard split is below the abstraction
    #[verifier::external_body]
    pub fn mut_shards(&mut self) -> (r: &mut Shards)
        ensures r.view() == old(self)@, final(self)@ == final(r).view()
    { unimplemented!() }
}
impl Shards { pub uninterp spec fn view(&self) -> Map<RowId, u64>; }
impl Shard {
    pub uninterp spec fn view(&self) -> Map<RowId, u64>;
    // A-hash: insert_unique adds the entry (the caller guarantees no entry with an equal key exists)
    #[verifier::external_body]
    pub fn insert_unique<H: Fn(&TableEntry) -> u64>(&mut self, hash: u64, e: TableEntry, hasher: H)
        ensures final(self).view() == old(self).view().insert(e.row, e.hashcode)
    { unimplemented!() }
}
impl vstd::std_specs::core::IndexSpecImpl<usize> for Shards {
    open spec fn index_req(&self, i: &usize) -> bool { true }
}
impl core::ops::Index<usize> for Shards {
    type Output = Shard;
    #[verifier::external_body]
    fn index(&self, i: usize) -> (r: &Shard) ensures r.view() == self.view() { unimplemented!() }
}
impl core::ops::IndexMut<usize> for Shards {
    #[verifier::external_body]
    fn index_mut(&mut self, i: usize) -> (r: &mut Shard)
        ensures r.view() == old(self).view(), final(self).view() == final(r).view()
    { unimplemented!() }
}

// A-hash: get_entry_mut (hashbrown find_mut on the key's shard): an entry whose stored hash equals the key's hash and
// for which `test` holds, if there is one; the returned reference points at the entry's row id
#[verifier::external_body]
pub fn get_entry_mut<'a, F: Fn(RowId) -> bool>(row: &[Value], n_keys: usize, table: &'a mut ShardedHashTable<TableEntry>, test: F) -> (r: Option<&'a mut RowId>)
    requires n_keys <= row@.len(),
    ensures match r {
        Some(e) => old(table)@.contains_key(*e) && old(table)@[*e] == hcs(row@.subrange(0, n_keys as int)) && test.ensures((*e,), true)
            && final(table)@ == old(table)@.remove(*e).insert(*final(e), old(table)@[*e]),
        None => final(table)@ == old(table)@
            && forall|id: RowId| #[trigger] old(table)@.contains_key(id) && old(table)@[id] == hcs(row@.subrange(0, n_keys as int)) ==> test.ensures((id,), false),
    }
{ unimplemented!() }

// A-hash: get_entry (hashbrown find on the key's shard): the read-only twin of get_entry_mut
#[verifier::external_body]
pub fn get_entry<F: Fn(RowId) -> bool>(row: &[Value], n_keys: usize, table: &ShardedHashTable<TableEntry>, test: F) -> (r: Option<RowId>)
    requires n_keys <= row@.len(),
    ensures match r {
        Some(e) => table@.contains_key(e) && table@[e] == hcs(row@.subrange(0, n_keys as int)) && test.ensures((e,), true),
        None => forall|id: RowId| #[trigger] table@.contains_key(id) && table@[id] == hcs(row@.subrange(0, n_keys as int)) ==> test.ensures((id,), false),
    }
{ unimplemented!() }

/// the table's merge function as a pure function of (stored row, incoming row): changed? / merged row
/// (unit merge proves that the bridge's callback is of this shape: row_changes / merged_row)
pub uninterp spec fn mch(cur: Seq<Value>, new: Seq<Value>) -> bool;
pub uninterp spec fn mo(cur: Seq<Value>, new: Seq<Value>) -> Seq<Value>;
#[verifier::external_body]
pub struct MergeFn { _p: core::marker::PhantomData<u8> }
impl MergeFn {
    // A-db: the `dyn Fn` merge callback (see R-DYNCALL); it only ever sees an empty scratch vector
    #[verifier::external_body]
    pub fn vc_call(&self, state: &mut ExecutionState, cur: &[Value], new: &[Value], out: &mut Vec<Value>) -> (r: bool)
        requires old(out)@.len() == 0,
        ensures r == mch(cur@, new@), r ==> final(out)@ == mo(cur@, new@), !r ==> final(out)@.len() == 0,
    { unimplemented!() }
}

#[verifier::external_body]
#[verifier::reject_recursive_types(T)]
pub struct SegQueue<T> { _p: core::marker::PhantomData<T> }
impl<T> SegQueue<T> {
    #[verifier::external_body]
    pub fn pop(&self) -> Option<T> { unimplemented!() }
}
#[verifier::external_body]
pub struct RowBuffer { _p: core::marker::PhantomData<u8> }
pub uninterp spec fn table_arity() -> nat;
impl RowBuffer {
    pub uninterp spec fn view(&self) -> Seq<Seq<Value>>;
    // A-db: RowBuffer as the sequence of its rows (get_row / add_row / set_stale), as for Rows above
    #[verifier::external_body]
    pub fn get_row(&self, row: RowId) -> (r: &[Value])
        requires row.ix() < self@.len(),
        ensures r@ == self@[row.ix() as int]
    { unimplemented!() }
    #[verifier::external_body]
    pub fn add_row(&mut self, row: &[Value]) -> (r: RowId)
        ensures r.ix() == old(self)@.len(), final(self)@ == old(self)@.push(row@)
    { unimplemented!() }
    // set_stale marks column 0 of the row and returns whether the row was stale already
    #[verifier::external_body]
    pub fn set_stale(&mut self, row: RowId) -> (r: bool)
        requires row.ix() < old(self)@.len(), old(self)@[row.ix() as int].len() > 0,
        ensures
            r == stale(old(self)@[row.ix() as int]),
            final(self)@.len() == old(self)@.len(),
            final(self)@[row.ix() as int] == old(self)@[row.ix() as int].update(0, Value { rep: u32::MAX }),
            forall|j: int| 0 <= j < old(self)@.len() && j != row.ix() ==> final(self)@[j] == old(self)@[j],
    { unimplemented!() }
    #[verifier::external_body]
    pub fn len(&self) -> (r: usize) ensures r == self@.len() { unimplemented!() }
    #[verifier::external_body]
    pub fn reserve(&mut self, additional: usize) ensures final(self)@ == old(self)@ { unimplemented!() }
    #[verifier::external_body]
    pub fn clear(&mut self) ensures final(self)@.len() == 0 { unimplemented!() }
    // A-db: the non-stale rows of a staged buffer, in order; all of the table's arity
    #[verifier::external_body]
    pub fn non_stale(&self) -> (r: &Vec<Vec<Value>>)
        ensures forall|k: int| 0 <= k < r@.len() ==> (#[trigger] r@[k])@.len() == table_arity() && !stale(r@[k]@)
    { unimplemented!() }
}
/// number of rows marked stale in a row store
pub open spec fn stale_count(rows: Seq<Seq<Value>>) -> nat
    decreases rows.len()
{
    if rows.len() == 0 { 0 } else { stale_count(rows.drop_last()) + (if stale(rows.last()) { 1nat } else { 0nat }) }
}
pub proof fn lemma_stale_count_bound(rows: Seq<Seq<Value>>)
    ensures stale_count(rows) <= rows.len()
    decreases rows.len()
{
    if rows.len() > 0 { lemma_stale_count_bound(rows.drop_last()); }
}
pub proof fn lemma_stale_count_set(a: Seq<Seq<Value>>, b: Seq<Seq<Value>>, i: int)
    requires a.len() == b.len(), 0 <= i < a.len(), !stale(a[i]), stale(b[i]), forall|j: int| 0 <= j < a.len() && j != i ==> #[trigger] b[j] == a[j],
    ensures stale_count(b) == stale_count(a) + 1
    decreases a.len()
{
    if i == a.len() - 1 {
        assert(a.drop_last() =~= b.drop_last());
    } else {
        lemma_stale_count_set(a.drop_last(), b.drop_last(), i);
        assert(a.last() == b.last());
    }
}
pub proof fn lemma_stale_count_lt(rows: Seq<Seq<Value>>, i: int)
    requires 0 <= i < rows.len(), !stale(rows[i]),
    ensures stale_count(rows) < rows.len()
    decreases rows.len()
{
    if i == rows.len() - 1 { lemma_stale_count_bound(rows.drop_last()); } else { lemma_stale_count_lt(rows.drop_last(), i); }
}
pub proof fn lemma_stale_count_push(a: Seq<Seq<Value>>, r: Seq<Value>)
    ensures stale_count(a.push(r)) == stale_count(a) + (if stale(r) { 1nat } else { 0nat })
{
    assert(a.push(r).drop_last() =~= a);
}

/// the row store of a SortedWritesTable: all rows ever appended, superseded ones marked stale in column 0; a thin
/// wrapper around RowBuffer that counts the stale rows (real struct and methods, verified below)
//@ item core-relations/src/table/mod.rs struct Rows
impl Rows {
    pub open spec fn view(&self) -> Seq<Seq<Value>> { self.data@ }
    /// stale_rows is the number of rows marked stale
    pub open spec fn counted(&self) -> bool { self.stale_rows == stale_count(self.data@) }
}
//@ impl core-relations/src/table/mod.rs impl Rows
//@ fn clear
//@ at sig
        ensures final(self)@.len() == 0, final(self).counted(),
//@ end-fn
//@ fn next_row
//@ ret r
//@ at sig
        ensures r.ix() == self@.len(),
//@ end-fn
//@ fn set_stale
//@ at sig
        requires row.ix() < old(self)@.len(), old(self)@[row.ix() as int].len() > 0, old(self).counted(), old(self)@.len() <= usize::MAX,
        ensures
            final(self).counted(),
            old(self)@[row.ix() as int].len() == final(self)@[row.ix() as int].len(),
            final(self)@.len() == old(self)@.len(),
            stale(final(self)@[row.ix() as int]),
            final(self)@[row.ix() as int].len() == old(self)@[row.ix() as int].len(),
            forall|j: int| 0 <= j < old(self)@.len() && j != row.ix() ==> final(self)@[j] == old(self)@[j],
//@ at entry
        let ghost r0 = self.data@;
        proof { if !stale(r0[row.ix() as int]) { lemma_stale_count_lt(r0, row.ix() as int); } }
//@ at end
        proof {
            if !stale(r0[row.ix() as int]) { lemma_stale_count_set(r0, self.data@, row.ix() as int); }
            else {
                assert(self.data@[row.ix() as int] =~= r0[row.ix() as int]);
                assert(self.data@ =~= r0);
            }
        }
//@ end-fn
//@ fn get_row
//@ ret r
//@ at sig
        requires row.ix() < self@.len(), self@[row.ix() as int].len() > 0,
        ensures match r { Some(x) => x@ == self@[row.ix() as int] && !stale(self@[row.ix() as int]), None => stale(self@[row.ix() as int]) }
//@ end-fn
//@ fn add_row
//@ ret r
//@ at sig
        requires row@.len() > 0, old(self).counted(), old(self)@.len() < usize::MAX,
        ensures r.ix() == old(self)@.len(), final(self)@ == old(self)@.push(row@), final(self).counted(),
//@ at entry
        proof { lemma_stale_count_bound(self.data@); lemma_stale_count_push(self.data@, row@); }
//@ end-fn
//@ end-impl

#[verifier::external_body]
#[verifier::reject_recursive_types(K)]
#[verifier::reject_recursive_types(V)]
pub struct DenseIdMap<K, V> { _p: core::marker::PhantomData<(K, V)> }
impl<K, V> DenseIdMap<K, V> {
    #[verifier::external_body]
    pub fn iter(&self) -> (r: &Vec<(K, V)>) { unimplemented!() }
}
/// A-hash: hashbrown::HashTable<TableEntry> as the map row id -> stored hash code, and its entry API. The entry borrows
/// the table: what the caller writes through it is what the table holds afterwards (prophecy on the inner &mut).
#[verifier::external_body]
#[verifier::reject_recursive_types(T)]
pub struct HashTable<T> { _p: core::marker::PhantomData<T> }
pub struct OccupiedEntry<'a> { pub e: &'a mut TableEntry }
pub struct VacantEntry<'a> { pub slot: &'a mut Option<TableEntry> }
impl<'a> OccupiedEntry<'a> {
    pub open spec fn cur(&self) -> TableEntry { *self.e }
    #[verifier::external_body]
    pub fn get(&self) -> (r: &TableEntry) ensures *r == self.cur() { unimplemented!() }
    #[verifier::external_body]
    pub fn get_mut(&mut self) -> (r: &mut TableEntry)
        ensures *r == old(self).cur(), final(self).cur() == *final(r), *final(final(self).e) == *final(old(self).e)
    { unimplemented!() }
}
impl<'a> VacantEntry<'a> {
    #[verifier::external_body]
    pub fn insert(self, t: TableEntry) ensures *final(self.slot) == Some(t) { unimplemented!() }
}
pub mod hashbrown { pub mod hash_table {
    pub enum Entry<'a> { Occupied(super::super::OccupiedEntry<'a>), Vacant(super::super::VacantEntry<'a>) }
} }
impl HashTable<TableEntry> {
    pub uninterp spec fn view(&self) -> Map<RowId, u64>;
    #[verifier::external_body]
    pub fn clear(&mut self) ensures final(self)@ == Map::<RowId, u64>::empty() { unimplemented!() }
    // A-hash: entry(hash, eq, hasher): Occupied with an entry stored under `hash` for which eq holds, if there is one;
    // otherwise Vacant, and then no entry stored under `hash` satisfies eq
    #[verifier::external_body]
    pub fn entry<'a, E: Fn(&TableEntry) -> bool, H: Fn(&TableEntry) -> u64>(&'a mut self, hash: u64, eq: E, hasher: H) -> (r: hashbrown::hash_table::Entry<'a>)
        requires forall|id: RowId| #[trigger] old(self)@.contains_key(id) ==> eq.requires((&TableEntry { hashcode: old(self)@[id], row: id },)),
        ensures match r {
            hashbrown::hash_table::Entry::Occupied(o) =>
                old(self)@.contains_key(o.e.row) && old(self)@[o.e.row] == o.e.hashcode && eq.ensures((&*o.e,), true)
                && final(self)@ == old(self)@.remove(o.e.row).insert(final(o.e).row, final(o.e).hashcode),
            hashbrown::hash_table::Entry::Vacant(v) =>
                *v.slot is None
                && (forall|id: RowId| #[trigger] old(self)@.contains_key(id) && old(self)@[id] == hash ==> eq.ensures((&TableEntry { hashcode: hash, row: id },), false))
                && final(self)@ == (match *final(v.slot) { Some(t) => old(self)@.insert(t.row, t.hashcode), None => old(self)@ }),
        }
    { unimplemented!() }
}
/// the `impl FnMut(&[Value], &[Value], &mut Vec<Value>) -> bool` merge argument of StagedOutputs::insert (R-FNPARAM):
/// the same pure function mch/mo as the table's merge callback (parallel_insert passes exactly that)
#[verifier::external_body]
pub struct StagedMergeFn { _p: core::marker::PhantomData<u8> }
impl StagedMergeFn {
    #[verifier::external_body]
    pub fn vc_call(&mut self, cur: &[Value], new: &[Value], out: &mut Vec<Value>) -> (r: bool)
        requires old(out)@.len() == 0,
        ensures r == mch(cur@, new@), r ==> final(out)@ == mo(cur@, new@), !r ==> final(out)@.len() == 0,
    { unimplemented!() }
}

// A-db: the atomic counters of staged rows (only their sum decides serial vs parallel; both paths have the same contract)
#[verifier::external_body]
pub struct AtomicUsize { _p: core::marker::PhantomData<u8> }
pub enum Ordering { Relaxed }
impl AtomicUsize {
    #[verifier::external_body]
    pub fn swap(&self, v: usize, o: Ordering) -> usize { unimplemented!() }
}
#[verifier::external_body]
pub fn parallelize_table_op(table_size: usize) -> bool { unimplemented!() }
pub struct PendingState { pub pending_rows: DenseIdMap<ShardId, SegQueue<RowBuffer>>, pub total_removals: AtomicUsize, pub total_rows: AtomicUsize }
impl PendingState {
    // A-db: drops every staged insert and removal (SegQueue pops); no table content is touched
    #[verifier::external_body]
    pub fn clear(&self) { unimplemented!() }
}

//@ item core-relations/src/table/mod.rs struct SortChecker
//@ item core-relations/src/table_spec.rs struct TableVersion
//@ item core-relations/src/table_spec.rs struct TableChange
//@ item core-relations/src/table_spec.rs struct Row
//@ item core-relations/src/table/mod.rs struct SortedWritesTable only generation data hash n_keys n_columns sort_by offsets pending_state merge

// ---------------- the keyed-map view ------------------------------------------------------------------------------
pub open spec fn keyof(row: Seq<Value>, n_keys: nat) -> Seq<Value> { row.subrange(0, n_keys as int) }
/// within one major generation row ids are stable: rows are only appended or marked stale
pub open spec fn rows_extend(a: Seq<Seq<Value>>, b: Seq<Seq<Value>>) -> bool {
    a.len() <= b.len() && forall|i: int| 0 <= i < a.len() ==> (#[trigger] b[i] == a[i] || stale(b[i]))
}

/// assumption on the merge function (the bridge's callback satisfies it: the merged row keeps the incoming keys)
pub open spec fn merge_keeps_key(n_keys: nat) -> bool {
    forall|a: Seq<Value>, b: Seq<Value>| #![trigger mo(a, b)] a.len() == table_arity() && b.len() == table_arity() && keyof(a, n_keys) == keyof(b, n_keys) && mch(a, b) && !stale(b)
        ==> mo(a, b).len() == table_arity() && keyof(mo(a, b), n_keys) == keyof(b, n_keys) && !stale(mo(a, b))
}

// the keyed-map invariant over (row store, hash index, number of key columns). Free functions, so that the quantifier
// triggers are terms over the row store / index themselves and not over a wrapper.
pub open spec fn km_shape(rows: Seq<Seq<Value>>, n_keys: nat) -> bool {
    &&& n_keys <= table_arity() && 1 <= table_arity()
    &&& rows.len() <= u32::MAX + 1
    &&& forall|i: int| 0 <= i < rows.len() ==> (#[trigger] rows[i]).len() == table_arity()
}
/// every index entry points at a live row whose key hashes to the stored code
pub open spec fn km_entries(rows: Seq<Seq<Value>>, idx: Map<RowId, u64>, n_keys: nat) -> bool {
    forall|id: RowId| #[trigger] idx.contains_key(id) ==> id.ix() < rows.len() && !stale(rows[id.ix() as int])
            && idx[id] == hcs(keyof(rows[id.ix() as int], n_keys))
}
/// two entries never share a key
pub open spec fn km_distinct(rows: Seq<Seq<Value>>, idx: Map<RowId, u64>, n_keys: nat) -> bool {
    forall|a: RowId, b: RowId| #![trigger idx.contains_key(a), idx.contains_key(b)]
            idx.contains_key(a) && idx.contains_key(b) && a != b
            ==> keyof(rows[a.ix() as int], n_keys) != keyof(rows[b.ix() as int], n_keys)
}
/// every live row is indexed
pub open spec fn km_indexed(rows: Seq<Seq<Value>>, idx: Map<RowId, u64>) -> bool {
    forall|i: int| 0 <= i < rows.len() && !stale(#[trigger] rows[i]) ==> idx.contains_key(RowId { rep: i as u32 })
}

/// the keyed-map view of a table: the row store (every row ever appended; superseded ones marked stale in column 0),
/// the hash index (row id -> stored hash code) and the number of key columns
pub struct KM { pub rows: Seq<Seq<Value>>, pub idx: Map<RowId, u64>, pub n_keys: nat }
impl KM {
    pub open spec fn wf_shape(&self) -> bool { km_shape(self.rows, self.n_keys) }
    pub open spec fn wf_entries(&self) -> bool { km_entries(self.rows, self.idx, self.n_keys) }
    pub open spec fn wf_distinct(&self) -> bool { km_distinct(self.rows, self.idx, self.n_keys) }
    pub open spec fn wf_indexed(&self) -> bool { km_indexed(self.rows, self.idx) }
    pub open spec fn wf(&self) -> bool {
        self.wf_shape() && self.wf_entries() && self.wf_distinct() && self.wf_indexed()
    }

    /// the live rows (the contents of the map)
    pub open spec fn live(&self, row: Seq<Value>) -> bool {
        exists|id: RowId| #[trigger] self.idx.contains_key(id) && self.rows[id.ix() as int] == row
    }
}

// ---------------- the offsets abstraction (same definitions as unit swt) and its link to the row data ---------------
/// strictly increasing sort values and row ids; runs start at row 0 and lie inside the table
pub open spec fn offsets_ok(o: Seq<(Value, RowId)>, n_rows: nat) -> bool {
    &&& forall|i: int, j: int| #![trigger o[i], o[j]] 0 <= i < j < o.len() ==> o[i].0.ix() < o[j].0.ix() && o[i].1.ix() < o[j].1.ix()
    &&& (o.len() > 0 ==> o[0].1.ix() == 0)
    &&& forall|i: int| 0 <= i < o.len() ==> (#[trigger] o[i]).1.ix() < n_rows
    &&& (o.len() == 0 ==> n_rows == 0)
}
/// index of the run containing row r (-1 if none)
pub open spec fn run_idx(o: Seq<(Value, RowId)>, r: int) -> int
    decreases o.len()
{
    if o.len() == 0 { -1 } else if o.last().1.ix() <= r { o.len() - 1 } else { run_idx(o.drop_last(), r) }
}
/// the sort value (timestamp) of row r under the offsets abstraction
pub open spec fn sort_val(o: Seq<(Value, RowId)>, r: int) -> nat { o[run_idx(o, r)].0.ix() }
/// the offsets vector describes the rows: what unit swt's fast_subset computes from `offsets` IS the value stored in
/// the sort column of every live row (a stale row has only its column 0 overwritten, so it is excluded)
pub open spec fn tracks(rows: Seq<Seq<Value>>, o: Seq<(Value, RowId)>, sb: nat) -> bool {
    offsets_ok(o, rows.len()) && forall|r: int| 0 <= r < rows.len() && !stale(#[trigger] rows[r]) ==> rows[r][sb as int].ix() == sort_val(o, r)
}
/// the merge function keeps the incoming row's sort value (unit merge: the rewritten row carries the incoming timestamp)
pub open spec fn merge_keeps_sort(sb: nat) -> bool {
    forall|a: Seq<Value>, b: Seq<Value>| #![trigger mo(a, b)] mch(a, b) ==> mo(a, b)[sb as int] == b[sb as int]
}
pub proof fn lemma_run_idx_push(o: Seq<(Value, RowId)>, p: (Value, RowId), r: int)
    ensures
        r < p.1.ix() ==> run_idx(o.push(p), r) == run_idx(o, r),
        p.1.ix() <= r ==> run_idx(o.push(p), r) == o.len(),
{
    assert(o.push(p).drop_last() =~= o);
}
/// appending a row whose sort value is >= the largest keeps `tracks`, with or without a new run
pub proof fn lemma_tracks_append(rows: Seq<Seq<Value>>, o: Seq<(Value, RowId)>, sb: nat, row: Seq<Value>, o2: Seq<(Value, RowId)>)
    requires
        tracks(rows, o, sb), rows.len() <= u32::MAX,
        o.len() == 0 || row[sb as int].ix() >= o.last().0.ix(),
        o2 == (if o.len() == 0 || row[sb as int].ix() > o.last().0.ix() { o.push((row[sb as int], RowId { rep: rows.len() as u32 })) } else { o }),
    ensures tracks(rows.push(row), o2, sb),
{
    let rows2 = rows.push(row);
    let n = rows.len() as int;
    let p = (row[sb as int], RowId { rep: rows.len() as u32 });
    assert(p.1.ix() == n);
    if o.len() == 0 || row[sb as int].ix() > o.last().0.ix() {
        assert forall|i: int, j: int| #![trigger o2[i], o2[j]] 0 <= i < j < o2.len() implies o2[i].0.ix() < o2[j].0.ix() && o2[i].1.ix() < o2[j].1.ix() by {
            if j < o.len() { assert(o2[i] == o[i] && o2[j] == o[j]); }
            else {
                assert(o2[i] == o[i]);
                assert(o[i].1.ix() < n);
                if i < o.len() - 1 { assert(o[i].0.ix() < o[o.len() - 1].0.ix()); }
            }
        }
        assert forall|r: int| 0 <= r < rows2.len() && !stale(#[trigger] rows2[r]) implies rows2[r][sb as int].ix() == sort_val(o2, r) by {
            lemma_run_idx_push(o, p, r);
            if r < n { assert(rows2[r] == rows[r]); assert(o2[run_idx(o, r)] == o[run_idx(o, r)]) by { lemma_run_idx_range(o, r); } }
        }
        assert(offsets_ok(o2, rows2.len())) by { if o.len() > 0 { assert(o2[0] == o[0]); } }
    } else {
        assert forall|r: int| 0 <= r < rows2.len() && !stale(#[trigger] rows2[r]) implies rows2[r][sb as int].ix() == sort_val(o2, r) by {
            if r < n { assert(rows2[r] == rows[r]); } else { assert(o.last().1.ix() <= r); }
        }
    }
}
pub proof fn lemma_run_idx_range(o: Seq<(Value, RowId)>, r: int)
    ensures -1 <= run_idx(o, r) < o.len(), (o.len() > 0 && o[0].1.ix() <= r) ==> 0 <= run_idx(o, r)
    decreases o.len()
{
    if o.len() > 0 && !(o.last().1.ix() <= r) {
        lemma_run_idx_range(o.drop_last(), r);
        if o.len() > 1 { assert(o.drop_last()[0] == o[0]); }
    }
}
/// marking a row stale keeps `tracks`
pub proof fn lemma_tracks_stale(rows: Seq<Seq<Value>>, rows2: Seq<Seq<Value>>, o: Seq<(Value, RowId)>, sb: nat, i: int)
    requires tracks(rows, o, sb), rows2.len() == rows.len(), 0 <= i < rows.len(), stale(rows2[i]),
        forall|j: int| 0 <= j < rows.len() && j != i ==> #[trigger] rows2[j] == rows[j],
    ensures tracks(rows2, o, sb),
{
}

impl SortedWritesTable {
    pub open spec fn km(&self) -> KM { KM { rows: self.data@, idx: self.hash@, n_keys: self.n_keys as nat } }
    pub open spec fn wf_shape(&self) -> bool {
        km_shape(self.data@, self.n_keys as nat) && (self.sort_by is Some ==> self.sort_by->Some_0.ix() < table_arity()) && self.data.counted()
        && (self.sort_by is Some ==> tracks(self.data@, self.offsets@, self.sort_by->Some_0.ix()))
    }
    pub open spec fn wf_entries(&self) -> bool { km_entries(self.data@, self.hash@, self.n_keys as nat) }
    pub open spec fn wf_distinct(&self) -> bool { km_distinct(self.data@, self.hash@, self.n_keys as nat) }
    pub open spec fn wf_indexed(&self) -> bool { km_indexed(self.data@, self.hash@) }
    pub open spec fn wf(&self) -> bool {
        self.wf_shape() && self.wf_entries() && self.wf_distinct() && self.wf_indexed()
    }
}

/// one pending row `q` applied to the table `a`, giving `b` (C05: the merge is applied on every collision):
/// key absent -> q is stored; key present with stored row cur -> cur is replaced by the MERGED row mo(cur, q) iff the
/// merge function reports a change, otherwise nothing changes. (Keys are unique among live rows, see wf_distinct.)
pub open spec fn applied(n_keys: nat, a: KM, q: Seq<Value>, b: KM) -> bool {
    &&& forall|cur: Seq<Value>| #![trigger a.live(cur)] a.live(cur) && keyof(cur, n_keys) == keyof(q, n_keys) ==>
            (if mch(cur, q) { forall|r: Seq<Value>| #![trigger b.live(r)] b.live(r) <==> ((a.live(r) && r != cur) || r == mo(cur, q)) }
             else { forall|r: Seq<Value>| #![trigger b.live(r)] b.live(r) <==> a.live(r) })
    &&& (forall|cur: Seq<Value>| #![trigger a.live(cur)] a.live(cur) ==> keyof(cur, n_keys) != keyof(q, n_keys)) ==>
            forall|r: Seq<Value>| #![trigger b.live(r)] b.live(r) <==> (a.live(r) || r == q)
}

/// the three ways one loop iteration of serial_insert relates the table before (a) and after (b)
pub open spec fn step_same(n: nat, a: KM, q: Seq<Value>, b: KM) -> bool {
    b.rows =~= a.rows && b.idx =~= a.idx
    && exists|id: RowId| #[trigger] a.idx.contains_key(id) && keyof(a.rows[id.ix() as int], n) == keyof(q, n) && !mch(a.rows[id.ix() as int], q)
}
pub open spec fn step_merge(n: nat, a: KM, q: Seq<Value>, b: KM) -> bool {
    exists|id: RowId| #[trigger] a.idx.contains_key(id) && keyof(a.rows[id.ix() as int], n) == keyof(q, n) && mch(a.rows[id.ix() as int], q)
        && a.rows.len() <= u32::MAX && b.rows.len() == a.rows.len() + 1
        && b.rows[a.rows.len() as int] == mo(a.rows[id.ix() as int], q)
        && stale(b.rows[id.ix() as int]) && b.rows[id.ix() as int].len() == a.rows[id.ix() as int].len()
        && (forall|j: int| 0 <= j < a.rows.len() && j != id.ix() ==> #[trigger] b.rows[j] == a.rows[j])
        && b.idx =~= a.idx.remove(id).insert(RowId { rep: a.rows.len() as u32 }, a.idx[id])
}
pub open spec fn has_key(n: nat, a: KM, q: Seq<Value>) -> bool {
    exists|id: RowId| #[trigger] a.idx.contains_key(id) && keyof(a.rows[id.ix() as int], n) == keyof(q, n)
}
pub open spec fn step_new(n: nat, a: KM, q: Seq<Value>, b: KM) -> bool {
    (forall|id: RowId| #[trigger] a.idx.contains_key(id) ==> keyof(a.rows[id.ix() as int], n) != keyof(q, n))
    && a.rows.len() <= u32::MAX && b.rows =~= a.rows.push(q)
    && b.idx =~= a.idx.insert(RowId { rep: a.rows.len() as u32 }, hcs(keyof(q, n)))
}

pub proof fn lemma_applied(n: nat, a: KM, q: Seq<Value>, b: KM)
    requires
        a.wf(), n == a.n_keys,
        step_same(n, a, q, b) || step_merge(n, a, q, b) || step_new(n, a, q, b),
    ensures applied(n, a, q, b),
{
    let len0 = a.rows.len() as int;
    let newid = RowId { rep: len0 as u32 };
    if step_new(n, a, q, b) || step_merge(n, a, q, b) {
        assert(newid.ix() == len0);
        assert(!a.idx.contains_key(newid)) by { if a.idx.contains_key(newid) { assert(newid.ix() < a.rows.len()); } }
    }
    if step_new(n, a, q, b) {
        assert forall|cur: Seq<Value>| #![trigger a.live(cur)] a.live(cur) implies keyof(cur, n) != keyof(q, n) by {
            let c = choose|c: RowId| #[trigger] a.idx.contains_key(c) && a.rows[c.ix() as int] == cur;
        }
        assert forall|r: Seq<Value>| #![trigger b.live(r)] b.live(r) <==> (a.live(r) || r == q) by {
            if b.live(r) {
                let c = choose|c: RowId| #[trigger] b.idx.contains_key(c) && b.rows[c.ix() as int] == r;
                if c != newid { assert(a.idx.contains_key(c)); assert(b.rows[c.ix() as int] == a.rows[c.ix() as int]); }
            }
            if a.live(r) {
                let c = choose|c: RowId| #[trigger] a.idx.contains_key(c) && a.rows[c.ix() as int] == r;
                assert(b.idx.contains_key(c)); assert(b.rows[c.ix() as int] == r);
            }
            if r == q { assert(b.idx.contains_key(newid)); assert(b.rows[newid.ix() as int] == q); }
        }
    } else if step_merge(n, a, q, b) {
        let id = choose|id: RowId| #[trigger] a.idx.contains_key(id) && keyof(a.rows[id.ix() as int], n) == keyof(q, n) && mch(a.rows[id.ix() as int], q)
            && b.rows.len() == a.rows.len() + 1
            && b.rows[a.rows.len() as int] == mo(a.rows[id.ix() as int], q)
            && stale(b.rows[id.ix() as int]) && b.rows[id.ix() as int].len() == a.rows[id.ix() as int].len()
            && (forall|j: int| 0 <= j < a.rows.len() && j != id.ix() ==> #[trigger] b.rows[j] == a.rows[j])
            && b.idx =~= a.idx.remove(id).insert(RowId { rep: a.rows.len() as u32 }, a.idx[id]);
        let cur0 = a.rows[id.ix() as int];
        assert forall|cur: Seq<Value>| #![trigger a.live(cur)] a.live(cur) && keyof(cur, n) == keyof(q, n) implies
            (if mch(cur, q) { forall|r: Seq<Value>| #![trigger b.live(r)] b.live(r) <==> ((a.live(r) && r != cur) || r == mo(cur, q)) }
             else { forall|r: Seq<Value>| #![trigger b.live(r)] b.live(r) <==> a.live(r) }) by {
            let c = choose|c: RowId| #[trigger] a.idx.contains_key(c) && a.rows[c.ix() as int] == cur;
            assert(c == id);
            assert(cur == cur0);
            assert forall|r: Seq<Value>| #![trigger b.live(r)] b.live(r) <==> ((a.live(r) && r != cur) || r == mo(cur, q)) by {
                if b.live(r) {
                    let d = choose|d: RowId| #[trigger] b.idx.contains_key(d) && b.rows[d.ix() as int] == r;
                    if d != newid {
                        assert(a.idx.contains_key(d) && d != id);
                        assert(b.rows[d.ix() as int] == a.rows[d.ix() as int]);
                        assert(keyof(a.rows[d.ix() as int], n) != keyof(cur0, n));
                    }
                }
                if a.live(r) && r != cur {
                    let d = choose|d: RowId| #[trigger] a.idx.contains_key(d) && a.rows[d.ix() as int] == r;
                    assert(d != id);
                    assert(b.idx.contains_key(d)); assert(b.rows[d.ix() as int] == r);
                }
                if r == mo(cur, q) { assert(b.idx.contains_key(newid)); assert(b.rows[newid.ix() as int] == r); }
            }
        }
        assert(a.live(cur0));
    } else {
        let id = choose|id: RowId| #[trigger] a.idx.contains_key(id) && keyof(a.rows[id.ix() as int], n) == keyof(q, n) && !mch(a.rows[id.ix() as int], q);
        let cur0 = a.rows[id.ix() as int];
        assert forall|cur: Seq<Value>| #![trigger a.live(cur)] a.live(cur) && keyof(cur, n) == keyof(q, n) implies
            (if mch(cur, q) { forall|r: Seq<Value>| #![trigger b.live(r)] b.live(r) <==> ((a.live(r) && r != cur) || r == mo(cur, q)) }
             else { forall|r: Seq<Value>| #![trigger b.live(r)] b.live(r) <==> a.live(r) }) by {
            let c = choose|c: RowId| #[trigger] a.idx.contains_key(c) && a.rows[c.ix() as int] == cur;
            assert(c == id);
        }
        assert(a.live(cur0));
    }
}

/// one step keeps the keyed-map invariant (the three step relations are what the insert code does to rows and index)
pub proof fn lemma_step_wf(n: nat, a: KM, q: Seq<Value>, b: KM)
    requires
        a.wf(), n == a.n_keys, b.n_keys == a.n_keys, merge_keeps_key(n), q.len() == table_arity(), !stale(q),
        b.rows.len() <= u32::MAX + 1,
        step_same(n, a, q, b) || step_merge(n, a, q, b) || step_new(n, a, q, b),
    ensures b.wf(),
{
    let len0 = a.rows.len() as int;
    let newid = RowId { rep: len0 as u32 };
    if step_same(n, a, q, b) {
        assert(b.rows == a.rows && b.idx == a.idx);
    } else if step_merge(n, a, q, b) {
        let id = choose|id: RowId| #[trigger] a.idx.contains_key(id) && keyof(a.rows[id.ix() as int], n) == keyof(q, n) && mch(a.rows[id.ix() as int], q)
            && a.rows.len() <= u32::MAX && b.rows.len() == a.rows.len() + 1
            && b.rows[a.rows.len() as int] == mo(a.rows[id.ix() as int], q)
            && stale(b.rows[id.ix() as int]) && b.rows[id.ix() as int].len() == a.rows[id.ix() as int].len()
            && (forall|j: int| 0 <= j < a.rows.len() && j != id.ix() ==> #[trigger] b.rows[j] == a.rows[j])
            && b.idx =~= a.idx.remove(id).insert(RowId { rep: a.rows.len() as u32 }, a.idx[id]);
        assert(newid.ix() == len0);
        let cur = a.rows[id.ix() as int];
        assert(mo(cur, q).len() == table_arity() && keyof(mo(cur, q), n) == keyof(q, n) && !stale(mo(cur, q)));
        assert(b.wf_shape()) by {
            assert forall|i: int| 0 <= i < b.rows.len() implies (#[trigger] b.rows[i]).len() == table_arity() by {
                if i < len0 && i != id.ix() { assert(b.rows[i] == a.rows[i]); }
            }
        }
        assert(b.wf_entries()) by {
            assert forall|c: RowId| #[trigger] b.idx.contains_key(c) implies c.ix() < b.rows.len() && !stale(b.rows[c.ix() as int])
                    && b.idx[c] == hcs(keyof(b.rows[c.ix() as int], n)) by {
                if c != newid { assert(a.idx.contains_key(c) && c != id); assert(b.rows[c.ix() as int] == a.rows[c.ix() as int]); }
            }
        }
        assert(b.wf_distinct()) by {
            assert forall|x: RowId, y: RowId| #![trigger b.idx.contains_key(x), b.idx.contains_key(y)]
                    b.idx.contains_key(x) && b.idx.contains_key(y) && x != y
                    implies keyof(b.rows[x.ix() as int], n) != keyof(b.rows[y.ix() as int], n) by {
                if x != newid { assert(a.idx.contains_key(x) && x != id); assert(b.rows[x.ix() as int] == a.rows[x.ix() as int]); }
                if y != newid { assert(a.idx.contains_key(y) && y != id); assert(b.rows[y.ix() as int] == a.rows[y.ix() as int]); }
            }
        }
        assert(b.wf_indexed()) by {
            assert forall|i: int| 0 <= i < b.rows.len() && !stale(#[trigger] b.rows[i]) implies b.idx.contains_key(RowId { rep: i as u32 }) by {
                if i < len0 { assert(i != id.ix()); assert(b.rows[i] == a.rows[i]); assert(a.idx.contains_key(RowId { rep: i as u32 })); assert(RowId { rep: i as u32 } != id); }
                else { assert(RowId { rep: i as u32 } == newid); }
            }
        }
    } else {
        assert(newid.ix() == len0);
        assert(b.wf_shape()) by {
            assert forall|i: int| 0 <= i < b.rows.len() implies (#[trigger] b.rows[i]).len() == table_arity() by {
                if i < len0 { assert(b.rows[i] == a.rows[i]); }
            }
        }
        assert(b.wf_entries()) by {
            assert forall|c: RowId| #[trigger] b.idx.contains_key(c) implies c.ix() < b.rows.len() && !stale(b.rows[c.ix() as int])
                    && b.idx[c] == hcs(keyof(b.rows[c.ix() as int], n)) by {
                if c != newid { assert(a.idx.contains_key(c)); assert(b.rows[c.ix() as int] == a.rows[c.ix() as int]); }
            }
        }
        assert(b.wf_distinct()) by {
            assert forall|x: RowId, y: RowId| #![trigger b.idx.contains_key(x), b.idx.contains_key(y)]
                    b.idx.contains_key(x) && b.idx.contains_key(y) && x != y
                    implies keyof(b.rows[x.ix() as int], n) != keyof(b.rows[y.ix() as int], n) by {
                if x != newid { assert(a.idx.contains_key(x)); assert(b.rows[x.ix() as int] == a.rows[x.ix() as int]); }
                if y != newid { assert(a.idx.contains_key(y)); assert(b.rows[y.ix() as int] == a.rows[y.ix() as int]); }
            }
        }
        assert(b.wf_indexed()) by {
            assert forall|i: int| 0 <= i < b.rows.len() && !stale(#[trigger] b.rows[i]) implies b.idx.contains_key(RowId { rep: i as u32 }) by {
                if i < len0 { assert(b.rows[i] == a.rows[i]); assert(a.idx.contains_key(RowId { rep: i as u32 })); }
                else { assert(RowId { rep: i as u32 } == newid); }
            }
        }
    }
}

/// trigger-only marker for the witness sequences
pub open spec fn wit(ts: Seq<KM>, qs: Seq<Seq<Value>>) -> bool { true }

/// `last` is `first` after applying the pending rows qs one after the other
pub open spec fn chain(n_keys: nat, first: KM, last: KM, ts: Seq<KM>, qs: Seq<Seq<Value>>) -> bool {
    &&& ts.len() == qs.len() + 1
    &&& ts[0] == first
    &&& ts.last() == last
    &&& forall|k: int| 0 <= k < qs.len() ==> applied(n_keys, #[trigger] ts[k], qs[k], ts[k + 1])
}

pub proof fn lemma_chain_push(n: nat, first: KM, t0: KM, ts: Seq<KM>, qs: Seq<Seq<Value>>, q: Seq<Value>, t1: KM)
    requires chain(n, first, t0, ts, qs), applied(n, t0, q, t1),
    ensures chain(n, first, t1, ts.push(t1), qs.push(q)),
{
    let ts2 = ts.push(t1);
    let qs2 = qs.push(q);
    assert forall|k: int| 0 <= k < qs2.len() implies applied(n, #[trigger] ts2[k], qs2[k], ts2[k + 1]) by {
        if k < qs.len() { assert(ts2[k] == ts[k] && ts2[k + 1] == ts[k + 1] && qs2[k] == qs[k]); }
        else { assert(ts2[k] == t0 && ts2[k + 1] == t1 && qs2[k] == q); }
    }
}

//@ impl core-relations/src/table/mod.rs impl SortedWritesTable
//@ fn serial_insert
//@ ret r
//@ rewrite R-DYNCALL
//@ rewrite R-ITER 2 4
//@ rewrite R-ASSERT
//@ rewrite R-CLOSPAT &(Value,RowId) Value &(Value,RowId) Value
//@ rewrite R-CLOSANN 0 &PoolSet Vec<Value>
//@ rewrite R-CLOSANN 1 RowId bool
//@ rewrite R-CLOSANN 4 RowId bool
//@ at attr
    #[verifier::exec_allows_no_decreases_clause]
//@ at sig
        requires old(self).wf(), merge_keeps_key(old(self).n_keys as nat), keeps_sort(*old(self)),
        ensures
            final(self).wf(),
            final(self).n_keys == old(self).n_keys,
            final(self).sort_by == old(self).sort_by,
            final(self).n_columns == old(self).n_columns, final(self).generation == old(self).generation,
            // row ids stay valid: rows are only appended or marked stale
            rows_extend(old(self).data@, final(self).data@),
            // C05: the final contents are the initial ones with every pending row applied through the merge function
            exists|ts: Seq<KM>, qs: Seq<Seq<Value>>| #![trigger wit(ts, qs)] wit(ts, qs) && chain(old(self).n_keys as nat, old(self).km(), final(self).km(), ts, qs),
//@ at entry
        let ghost mut ts: Seq<KM> = seq![self.km()];
        let ghost mut qs: Seq<Seq<Value>> = Seq::empty();
//@ at tail
        proof { assert(wit(ts, qs)); }
//@ at closure 0 spec
            ensures r@.len() == 0
//@ at closure 1 spec
                            requires row.ix() < self.data@.len()
                            ensures r == (!stale(self.data@[row.ix() as int]) && keyof(self.data@[row.ix() as int], n_keys as nat) =~= key@)
//@ at closure 2 spec
                                    ensures r == __p.0
//@ at closure 3 spec
                                ensures r == __p.0
//@ at closure 4 spec
                            requires row.ix() < self.data@.len()
                            ensures r == (!stale(self.data@[row.ix() as int]) && keyof(self.data@[row.ix() as int], n_keys as nat) =~= key@)
//@ at loop 0 spec
            invariant
                self.wf_shape(),
                    self.wf_entries(),
                    self.wf_distinct(),
                    self.wf_indexed(),
                    chain(n_keys as nat, old(self).km(), self.km(), ts, qs),
                    merge_keeps_key(n_keys as nat), keeps_sort(*old(self)), n_keys == self.n_keys, scratch@.len() == 0,
                    self.n_keys == old(self).n_keys, self.sort_by == old(self).sort_by,
                    self.n_columns == old(self).n_columns, self.generation == old(self).generation, rows_extend(old(self).data@, self.data@),
//@ at loop 1 spec
                    invariant
                self.wf_shape(),
                    self.wf_entries(),
                    self.wf_distinct(),
                    self.wf_indexed(),
                    chain(n_keys as nat, old(self).km(), self.km(), ts, qs),
                    self.sort_by == Some(sort_by), merge_keeps_key(n_keys as nat), keeps_sort(*old(self)), n_keys == self.n_keys, scratch@.len() == 0,
                    self.n_keys == old(self).n_keys, self.sort_by == old(self).sort_by,
                    self.n_columns == old(self).n_columns, self.generation == old(self).generation, rows_extend(old(self).data@, self.data@),
//@ at loop 2 spec
                        invariant
                            forall|k: int| 0 <= k < __it2.snapshot@.remaining().len() ==> (#[trigger] __it2.snapshot@.remaining()[k])@.len() == table_arity() && !stale(__it2.snapshot@.remaining()[k]@),
                self.wf_shape(),
                    self.wf_entries(),
                    self.wf_distinct(),
                    self.wf_indexed(),
                    chain(n_keys as nat, old(self).km(), self.km(), ts, qs),
                    self.sort_by == Some(sort_by), merge_keeps_key(n_keys as nat), keeps_sort(*old(self)), n_keys == self.n_keys, scratch@.len() == 0,
                    self.n_keys == old(self).n_keys, self.sort_by == old(self).sort_by,
                    self.n_columns == old(self).n_columns, self.generation == old(self).generation, rows_extend(old(self).data@, self.data@),
//@ at loop 2 body-start
                        let ghost t0 = self.km();
                        let ghost o0 = self.offsets@;
//@ at loop 2 body-end
                        proof {
                            // the offsets vector still describes the rows
                            let sb = sort_by.ix();
                            assert(self.sort_by == Some(sort_by));
                            if self.data@.len() != t0.rows.len() {
                                let newrow = self.data@[t0.rows.len() as int];
                                let rows1 = t0.rows.push(newrow);
                                assert(newrow[sb as int] == query@[sb as int]);
                                lemma_tracks_append(t0.rows, o0, sb, newrow, self.offsets@);
                                if has_key(n_keys as nat, t0, query@) {
                                    let id = choose|id: RowId| #[trigger] t0.idx.contains_key(id) && stale(self.data@[id.ix() as int]) && self.data@.len() == t0.rows.len() + 1
                                        && (forall|j: int| 0 <= j < t0.rows.len() && j != id.ix() ==> #[trigger] self.data@[j] == t0.rows[j]);
                                    lemma_tracks_stale(rows1, self.data@, self.offsets@, sb, id.ix() as int);
                                } else {
                                    assert(self.data@ =~= rows1);
                                }
                            }
                            assert(t0.wf());
                            if self.km().rows.len() == t0.rows.len() { assert(step_same(n_keys as nat, t0, query@, self.km())); }
                            else if has_key(n_keys as nat, t0, query@) { assert(step_merge(n_keys as nat, t0, query@, self.km())); }
                            else {
                                assert(t0.rows.len() <= u32::MAX);
                                assert(self.km().rows =~= t0.rows.push(query@));
                                assert(self.km().idx =~= t0.idx.insert(RowId { rep: t0.rows.len() as u32 }, hcs(keyof(query@, n_keys as nat))));
                                assert(step_new(n_keys as nat, t0, query@, self.km()));
                            }
                            lemma_step_wf(n_keys as nat, t0, query@, self.km());
                            lemma_applied(n_keys as nat, t0, query@, self.km());
                            lemma_chain_push(n_keys as nat, old(self).km(), t0, ts, qs, query@, self.km());
                            ts = ts.push(self.km());
                            qs = qs.push(query@);
                        }
//@ at loop 3 spec
                    invariant
                self.wf_shape(),
                    self.wf_entries(),
                    self.wf_distinct(),
                    self.wf_indexed(),
                    chain(n_keys as nat, old(self).km(), self.km(), ts, qs),
                    self.sort_by is None, merge_keeps_key(n_keys as nat), keeps_sort(*old(self)), n_keys == self.n_keys, scratch@.len() == 0,
                    self.n_keys == old(self).n_keys, self.sort_by == old(self).sort_by,
                    self.n_columns == old(self).n_columns, self.generation == old(self).generation, rows_extend(old(self).data@, self.data@),
//@ at loop 4 spec
                        invariant
                            forall|k: int| 0 <= k < __it4.snapshot@.remaining().len() ==> (#[trigger] __it4.snapshot@.remaining()[k])@.len() == table_arity() && !stale(__it4.snapshot@.remaining()[k]@),
                self.wf_shape(),
                    self.wf_entries(),
                    self.wf_distinct(),
                    self.wf_indexed(),
                    chain(n_keys as nat, old(self).km(), self.km(), ts, qs),
                    self.sort_by is None, merge_keeps_key(n_keys as nat), keeps_sort(*old(self)), n_keys == self.n_keys, scratch@.len() == 0,
                    self.n_keys == old(self).n_keys, self.sort_by == old(self).sort_by,
                    self.n_columns == old(self).n_columns, self.generation == old(self).generation, rows_extend(old(self).data@, self.data@),
//@ at loop 4 body-start
                        let ghost t0 = self.km();
//@ at loop 4 body-end
                        proof {
                            assert(t0.wf());
                            if self.km().rows.len() == t0.rows.len() { assert(step_same(n_keys as nat, t0, query@, self.km())); }
                            else if has_key(n_keys as nat, t0, query@) { assert(step_merge(n_keys as nat, t0, query@, self.km())); }
                            else {
                                assert(t0.rows.len() <= u32::MAX);
                                assert(self.km().rows =~= t0.rows.push(query@));
                                assert(self.km().idx =~= t0.idx.insert(RowId { rep: t0.rows.len() as u32 }, hcs(keyof(query@, n_keys as nat))));
                                assert(step_new(n_keys as nat, t0, query@, self.km()));
                            }
                            lemma_step_wf(n_keys as nat, t0, query@, self.km());
                            lemma_applied(n_keys as nat, t0, query@, self.km());
                            lemma_chain_push(n_keys as nat, old(self).km(), t0, ts, qs, query@, self.km());
                            ts = ts.push(self.km());
                            qs = qs.push(query@);
                        }
//@ end-fn
//@ fn do_delete
//@ ret r
//@ at sig
        requires old(self).wf(),
        ensures final(self).wf(), only_removes(*old(self), *final(self)),
//@ end-fn
//@ fn do_insert
//@ ret r
//@ rewrite R-CLOSPAT &(Value,RowId) Value
//@ at sig
        requires old(self).wf(), merge_keeps_key(old(self).n_keys as nat), keeps_sort(*old(self)),
        ensures
            final(self).wf(), same_config(*old(self), *final(self)), final(self).generation == old(self).generation,
            rows_extend(old(self).data@, final(self).data@),
            // whichever path is taken, every staged row is applied through the merge function
            exists|ts: Seq<KM>, qs: Seq<Seq<Value>>| #![trigger wit(ts, qs)] wit(ts, qs) && chain(old(self).n_keys as nat, old(self).km(), final(self).km(), ts, qs),
//@ at closure 0 spec
                            ensures r == __p.0
//@ end-fn
//@ fn maybe_rehash
//@ at sig
        requires old(self).wf(), old(self).generation.ix() < u64::MAX,
        ensures
            final(self).wf(), same_config(*old(self), *final(self)), same_live(old(self).km(), final(self).km()),
            // compaction exactly when more than max(16, n/2) rows are stale; it changes the major generation, because
            // row ids change; otherwise nothing changes at all
            stale_count(old(self).data@) > vmax(16, old(self).data@.len() as int / 2)
                ==> final(self).generation.ix() == old(self).generation.ix() + 1 && final(self).data.stale_rows == 0,
            stale_count(old(self).data@) <= vmax(16, old(self).data@.len() as int / 2)
                ==> final(self).generation == old(self).generation && final(self).data@ == old(self).data@ && final(self).hash@ == old(self).hash@,
//@ end-fn
//@ fn rehash
//@ at sig
        requires old(self).wf(), old(self).generation.ix() < u64::MAX,
        ensures
            final(self).wf(), same_config(*old(self), *final(self)), same_live(old(self).km(), final(self).km()),
            final(self).generation.ix() == old(self).generation.ix() + 1, final(self).data.stale_rows == 0,
//@ end-fn
//@ end-impl


// ---------------- the table API of SortedWritesTable over the keyed-map view (C16) --------------------------------
impl Generation {
    // A-id: NumericId::inc (default method: from_usize(index() + 1); panics on overflow)
    #[verifier::external_body]
    pub fn inc(self) -> (r: Self) ensures r.ix() == self.ix() + 1 { unimplemented!() }
}
impl SortedWritesTable {
    /// A-db: the removal half of merge(): every staged key is looked up and its row marked stale and unindexed
    /// (serial_delete / parallel_delete: closures over &mut shards, rayon: not under contract). Only removes.
    #[verifier::external_body]
    pub fn serial_delete(&mut self) -> (r: bool)
        requires old(self).wf(),
        ensures final(self).wf(), only_removes(*old(self), *final(self)),
    { unimplemented!() }
    #[verifier::external_body]
    pub fn parallel_delete(&mut self) -> (r: bool)
        requires old(self).wf(),
        ensures final(self).wf(), only_removes(*old(self), *final(self)),
    { unimplemented!() }
    /// A-db: parallel_insert is ASSUMED to meet serial_insert's contract (F2 shows it does not; known finding)
    #[verifier::external_body]
    pub fn parallel_insert<C>(&mut self, exec_state: &ExecutionState, checker: C) -> (r: bool)
        requires old(self).wf(), merge_keeps_key(old(self).n_keys as nat), keeps_sort(*old(self)),
        ensures
            final(self).wf(), same_config(*old(self), *final(self)), rows_extend(old(self).data@, final(self).data@), final(self).generation == old(self).generation,
            exists|ts: Seq<KM>, qs: Seq<Seq<Value>>| #![trigger wit(ts, qs)] wit(ts, qs) && chain(old(self).n_keys as nat, old(self).km(), final(self).km(), ts, qs),
    { unimplemented!() }
    /// A-db: compaction (Rows::remove_stale with a remapping closure over the hash table and offsets): same live rows,
    /// no stale rows left; row ids change
    #[verifier::external_body]
    pub fn rehash_impl(sort_by: Option<ColumnId>, n_keys: usize, rows: &mut Rows, offsets: &mut Vec<(Value, RowId)>, hash: &mut ShardedHashTable<TableEntry>)
        requires km_shape(old(rows)@, n_keys as nat), km_entries(old(rows)@, old(hash)@, n_keys as nat), km_distinct(old(rows)@, old(hash)@, n_keys as nat), km_indexed(old(rows)@, old(hash)@),
        ensures
            km_shape(final(rows)@, n_keys as nat), km_entries(final(rows)@, final(hash)@, n_keys as nat), km_distinct(final(rows)@, final(hash)@, n_keys as nat), km_indexed(final(rows)@, final(hash)@),
            final(rows).counted(), final(rows).stale_rows == 0,
            sort_by is Some ==> tracks(final(rows)@, final(offsets)@, sort_by->Some_0.ix()),
            forall|r: Seq<Value>| #![trigger (KM { rows: final(rows)@, idx: final(hash)@, n_keys: n_keys as nat }).live(r)]
                (KM { rows: final(rows)@, idx: final(hash)@, n_keys: n_keys as nat }).live(r) <==> (KM { rows: old(rows)@, idx: old(hash)@, n_keys: n_keys as nat }).live(r),
    { unimplemented!() }
    #[verifier::external_body]
    pub fn parallel_rehash(&mut self)
        requires old(self).wf(),
        ensures final(self).wf(), same_config(*old(self), *final(self)), same_live(old(self).km(), final(self).km()), final(self).data.stale_rows == 0,
            final(self).generation.ix() == old(self).generation.ix() + 1,
    { unimplemented!() }
}
pub open spec fn vmax(a: int, b: int) -> int { if a >= b { a } else { b } }
pub open spec fn keeps_sort(t: SortedWritesTable) -> bool { t.sort_by is Some ==> merge_keeps_sort(t.sort_by->Some_0.ix()) }
pub open spec fn same_config(a: SortedWritesTable, b: SortedWritesTable) -> bool {
    a.n_keys == b.n_keys && a.n_columns == b.n_columns && a.sort_by == b.sort_by
}
pub open spec fn same_live(a: KM, b: KM) -> bool { forall|r: Seq<Value>| #![trigger b.live(r)] b.live(r) <==> a.live(r) }
pub open spec fn only_removes(a: SortedWritesTable, b: SortedWritesTable) -> bool {
    &&& same_config(a, b) && a.generation == b.generation
    &&& rows_extend(a.data@, b.data@) && a.data@.len() == b.data@.len()
    &&& forall|r: Seq<Value>| #![trigger b.km().live(r)] b.km().live(r) ==> a.km().live(r)
}
pub open spec fn wit3(d: SortedWritesTable, ts: Seq<KM>, qs: Seq<Seq<Value>>) -> bool { true }
/// the table's version: (major generation, number of rows ever appended in it)
pub open spec fn version_of(t: SortedWritesTable) -> (nat, nat) { (t.generation.ix(), t.data@.len()) }

//@ impl core-relations/src/table/mod.rs impl Table for SortedWritesTable => impl SortedWritesTable
//@ fn merge
//@ ret r
//@ at sig
        requires old(self).wf(), merge_keeps_key(old(self).n_keys as nat), keeps_sort(*old(self)), old(self).generation.ix() < u64::MAX,
        ensures
            final(self).wf(), same_config(*old(self), *final(self)),
            // removals first, then every staged row through the merge function, then (maybe) compaction
            exists|d: SortedWritesTable, ts: Seq<KM>, qs: Seq<Seq<Value>>| #![trigger wit3(d, ts, qs)]
                only_removes(*old(self), d) && chain(old(self).n_keys as nat, d.km(), ts.last(), ts, qs) && same_live(ts.last(), final(self).km()),
            // row ids handed out before stay valid unless the major generation changed
            final(self).generation == old(self).generation ==> rows_extend(old(self).data@, final(self).data@),
//@ at after-semi 0
        let ghost d = *self;
//@ at after-semi 1
        let ghost i = *self;
        proof {
            let (ts, qs) = choose|ts: Seq<KM>, qs: Seq<Seq<Value>>| #![trigger wit(ts, qs)] wit(ts, qs) && chain(d.n_keys as nat, d.km(), i.km(), ts, qs);
            assert(wit3(d, ts, qs));
        }
//@ end-fn
//@ fn version
//@ ret r
//@ at sig
        requires self.data@.len() <= u32::MAX + 1,
        ensures r.major == self.generation, r.minor.ix() == self.data@.len(),
//@ end-fn
//@ fn has_stale_rows
//@ ret r
//@ at sig
        requires self.data.counted(),
        ensures r == (stale_count(self.data@) > 0),
//@ end-fn
//@ fn len
//@ ret r
//@ at sig
        requires self.data.counted(),
        ensures r == self.data@.len() - stale_count(self.data@),
//@ at entry
        proof { lemma_stale_count_bound(self.data@); }
//@ end-fn
//@ fn clear
//@ at sig
        requires old(self).wf(), old(self).generation.ix() < u64::MAX,
        ensures
            final(self).wf(), same_config(*old(self), *final(self)),
            final(self).data@.len() == 0, final(self).hash@ == Map::<RowId, u64>::empty(),
            // a non-empty table changes its major generation (every RowId handed out before is invalid now)
            old(self).data@.len() > 0 ==> final(self).generation.ix() == old(self).generation.ix() + 1,
            old(self).data@.len() == 0 ==> final(self).generation == old(self).generation,
//@ end-fn
//@ fn get_row
//@ ret r
//@ rewrite R-CLOSANN 0 RowId bool
//@ rewrite R-CLOSANN 1 &PoolSet Vec<Value>
//@ at sig
        requires self.wf(), key@.len() == self.n_keys,
        ensures match r {
            // point lookup = keyed-map lookup: the live row with this key, if there is one
            Some(row) => self.hash@.contains_key(row.id) && row.vals@ == self.data@[row.id.ix() as int] && keyof(row.vals@, self.n_keys as nat) == key@,
            None => forall|id: RowId| #[trigger] self.hash@.contains_key(id) ==> keyof(self.data@[id.ix() as int], self.n_keys as nat) != key@,
        }
//@ at entry
        proof { assert(key@.subrange(0, self.n_keys as int) =~= key@); }
//@ at closure 0 spec
            requires row.ix() < self.data@.len(), self.data@[row.ix() as int].len() == table_arity(), !stale(self.data@[row.ix() as int]), self.n_keys <= table_arity()
            ensures r == (keyof(self.data@[row.ix() as int], self.n_keys as nat) =~= key@)
//@ at closure 1 spec
            ensures r@.len() == 0
//@ end-fn
//@ fn get_row_column
//@ ret r
//@ rewrite R-CLOSANN 0 RowId bool
//@ at sig
        requires self.wf(), key@.len() == self.n_keys, col.ix() < table_arity(),
        ensures match r {
            Some(v) => exists|id: RowId| #[trigger] self.hash@.contains_key(id) && keyof(self.data@[id.ix() as int], self.n_keys as nat) == key@ && v == self.data@[id.ix() as int][col.ix() as int],
            None => forall|id: RowId| #[trigger] self.hash@.contains_key(id) ==> keyof(self.data@[id.ix() as int], self.n_keys as nat) != key@,
        }
//@ at entry
        proof { assert(key@.subrange(0, self.n_keys as int) =~= key@); }
//@ at closure 0 spec
            requires row.ix() < self.data@.len(), self.data@[row.ix() as int].len() == table_arity(), !stale(self.data@[row.ix() as int]), self.n_keys <= table_arity()
            ensures r == (keyof(self.data@[row.ix() as int], self.n_keys as nat) =~= key@)
//@ end-fn
//@ end-impl


// ---------------- constraint evaluation on a row (constrained scans, C16; the NOT_SUBSUMED filter of C13) ---------
//@ item core-relations/src/table_spec.rs enum Constraint
pub open spec fn cols_ok(c: Constraint, n: nat) -> bool {
    match c {
        Constraint::Eq { l_col, r_col } => l_col.ix() < n && r_col.ix() < n,
        Constraint::EqConst { col, val } => col.ix() < n,
        Constraint::LtConst { col, val } => col.ix() < n,
        Constraint::GtConst { col, val } => col.ix() < n,
        Constraint::LeConst { col, val } => col.ix() < n,
        Constraint::GeConst { col, val } => col.ix() < n,
    }
}
/// meaning of a constraint on a row (written from the documentation of `Constraint`)
pub open spec fn sat(c: Constraint, row: Seq<Value>) -> bool {
    match c {
        Constraint::Eq { l_col, r_col } => row[l_col.ix() as int].ix() == row[r_col.ix() as int].ix(),
        Constraint::EqConst { col, val } => row[col.ix() as int].ix() == val.ix(),
        Constraint::LtConst { col, val } => row[col.ix() as int].ix() < val.ix(),
        Constraint::GtConst { col, val } => row[col.ix() as int].ix() > val.ix(),
        Constraint::LeConst { col, val } => row[col.ix() as int].ix() <= val.ix(),
        Constraint::GeConst { col, val } => row[col.ix() as int].ix() >= val.ix(),
    }
}
pub open spec fn sat_all(cs: Seq<Constraint>, row: Seq<Value>) -> bool { forall|i: int| 0 <= i < cs.len() ==> sat(#[trigger] cs[i], row) }

/// Iterator::all over a slice for a closure (R-ITERALL): a verified loop, hand-written (not /repo code)
pub fn vc_all<T, F: Fn(&T) -> bool>(xs: &[T], f: F) -> (r: bool)
    requires forall|i: int| 0 <= i < xs@.len() ==> f.requires((&#[trigger] xs@[i],)),
    ensures
        r ==> forall|i: int| 0 <= i < xs@.len() ==> f.ensures((&#[trigger] xs@[i],), true),
        !r ==> exists|i: int| 0 <= i < xs@.len() && f.ensures((&#[trigger] xs@[i],), false),
{
    let mut i: usize = 0;
    while i < xs.len()
        invariant
            i <= xs@.len(),
            forall|j: int| 0 <= j < xs@.len() ==> f.requires((&#[trigger] xs@[j],)),
            forall|j: int| 0 <= j < i ==> f.ensures((&#[trigger] xs@[j],), true),
        decreases xs@.len() - i
    {
        if !f(&xs[i]) { return false; }
        i += 1;
    }
    true
}

//@ impl core-relations/src/table/mod.rs impl SortedWritesTable
//@ fn eval_constraints
//@ ret r
//@ rewrite R-ITERALL
//@ rewrite R-CLOSANN 0 &Constraint bool
//@ at sig
        requires forall|i: int| 0 <= i < cs@.len() ==> cols_ok(#[trigger] cs@[i], row@.len()),
        ensures r == sat_all(cs@, row@),
//@ at closure 0 spec
            requires cols_ok(*constraint, row@.len())
            ensures r == sat(*constraint, row@)
//@ end-fn
//@ fn get_if
//@ ret r
//@ at sig
        requires row.ix() < self.data@.len(), self.data@[row.ix() as int].len() > 0,
            forall|i: int| 0 <= i < cs@.len() ==> cols_ok(#[trigger] cs@[i], self.data@[row.ix() as int].len()),
        ensures match r {
            // a row is handed out iff it is live and satisfies every constraint
            Some(x) => x@ == self.data@[row.ix() as int] && !stale(x@) && sat_all(cs@, x@),
            None => stale(self.data@[row.ix() as int]) || !sat_all(cs@, self.data@[row.ix() as int]),
        }
//@ end-fn
//@ fn eval
//@ ret r
//@ at sig
        requires row.ix() < self.data@.len(), self.data@[row.ix() as int].len() > 0,
            forall|i: int| 0 <= i < cs@.len() ==> cols_ok(#[trigger] cs@[i], self.data@[row.ix() as int].len()),
        ensures r == (!stale(self.data@[row.ix() as int]) && sat_all(cs@, self.data@[row.ix() as int])),
//@ end-fn
//@ end-impl

// ---------------- StagedOutputs::insert: the in-batch staging collision path -------------------------------------
//@ item core-relations/src/table/mod.rs struct StagedOutputs
impl StagedOutputs {
    pub open spec fn km(&self) -> KM { KM { rows: self.rows@, idx: self.hash@, n_keys: self.n_keys as nat } }
    pub open spec fn wf(&self) -> bool {
        km_shape(self.rows@, self.n_keys as nat) && km_entries(self.rows@, self.hash@, self.n_keys as nat)
        && km_distinct(self.rows@, self.hash@, self.n_keys as nat) && km_indexed(self.rows@, self.hash@)
    }
}
impl StagedOutputs {
    /// n_stale counts the superseded rows, so len() is the number of live (indexed) rows
    pub open spec fn counted(&self) -> bool { self.n_stale == stale_count(self.rows@) }
}

//@ impl core-relations/src/table/mod.rs impl StagedOutputs
//@ fn clear
//@ at sig
        ensures final(self).rows@.len() == 0, final(self).hash@ == Map::<RowId, u64>::empty(), final(self).counted(), final(self).n_keys == old(self).n_keys,
            old(self).n_keys <= table_arity() && 1 <= table_arity() ==> final(self).wf(),
//@ end-fn
//@ fn len
//@ ret r
//@ at sig
        requires self.counted(),
        ensures r == self.rows@.len() - stale_count(self.rows@),
//@ at entry
        proof { lemma_stale_count_bound(self.rows@); }
//@ end-fn
//@ fn insert
//@ rewrite R-FNPARAM merge_fn StagedMergeFn
//@ rewrite R-CLOSANN 0 &TableEntry bool
//@ at sig
        requires old(self).wf(), old(self).scratch@.len() == 0, row@.len() == table_arity(), merge_keeps_key(old(self).n_keys as nat),
            old(self).counted(),
        ensures
            final(self).wf(), final(self).scratch@.len() == 0, final(self).n_keys == old(self).n_keys,
            final(self).counted(),
            // C05: a staged row colliding with an earlier row of the same batch goes through the merge function
            stale(row@) ==> final(self).km() == old(self).km(),
            !stale(row@) ==> applied(old(self).n_keys as nat, old(self).km(), row@, final(self).km()),
//@ at entry
        let ghost t0 = self.km();
        proof {
            lemma_stale_count_bound(self.rows@);
            assert(t0.wf());
        }
//@ at closure 0 spec
                requires te.row.ix() < self.rows@.len()
                ensures r == (te.hashcode == hc && keyof(self.rows@[te.row.ix() as int], self.n_keys as nat) =~= keyof(row@, self.n_keys as nat))
//@ at end
        proof {
            let n = self.n_keys as nat;
            if self.km().rows.len() == t0.rows.len() { assert(step_same(n, t0, row@, self.km())); }
            else if has_key(n, t0, row@) { assert(step_merge(n, t0, row@, self.km())); }
            else {
                assert(t0.rows.len() <= u32::MAX);
                assert(self.km().rows =~= t0.rows.push(row@));
                assert(self.km().idx =~= t0.idx.insert(RowId { rep: t0.rows.len() as u32 }, hcs(keyof(row@, n))));
                assert(step_new(n, t0, row@, self.km()));
            }
            lemma_step_wf(n, t0, row@, self.km());
            lemma_applied(n, t0, row@, self.km());
            // n_stale counts the stale rows
            if self.km().rows.len() != t0.rows.len() {
                if has_key(n, t0, row@) {
                    let id = choose|id: RowId| #[trigger] t0.idx.contains_key(id) && stale(self.rows@[id.ix() as int]) && self.rows@.len() == t0.rows.len() + 1
                        && (forall|j: int| 0 <= j < t0.rows.len() && j != id.ix() ==> #[trigger] self.rows@[j] == t0.rows[j]);
                    let mid = self.rows@.drop_last();
                    assert(mid.len() == t0.rows.len());
                    lemma_stale_count_set(t0.rows, mid, id.ix() as int);
                    assert(self.rows@ =~= mid.push(self.rows@.last()));
                    lemma_stale_count_push(mid, self.rows@.last());
                } else {
                    lemma_stale_count_push(t0.rows, row@);
                }
            }
        }
//@ end-fn
//@ end-impl

} // verus!
fn main() {}
