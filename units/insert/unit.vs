#![feature(allocator_api)]
// U-INS: core-relations/src/table/mod.rs  SortedWritesTable::serial_insert -- the collision path of C05 / C04 / C16:
// the table stays a keyed map (one live row per key, every live row indexed) and every pending row is applied with
// the merge function: absent key -> the row is stored; present key -> the MERGED row replaces the stored one iff the
// merge function reports a change.
use vstd::prelude::*;
use std::sync::Arc;
use vstd::std_specs::cmp::*;
use vstd::std_specs::iter::IteratorSpec;
verus! {
//@ include prelude/numeric_id.vs
//@ include prelude/std_extra.vs
broadcast use {nid::ax_id_eq, nid::ax_id_cmp, nid::ax_id_obeys_eq, nid::ax_id_obeys_cmp, nid::ax_id_obeys_partial_cmp, nid::ax_id_partial_cmp, stdx::ax_iter_seq_vec};
//@ idtype Value RowId ColumnId ShardId

#[verifier::external_body]
pub fn vc_panic() -> (r: bool)
    ensures false
{ unimplemented!() }

//@ impl core-relations/src/common.rs impl Value
//@ fn is_stale
//@ ret r
//@ at sig
        ensures r == (self.rep == u32::MAX),
//@ end-fn
//@ end-impl

// ---- trusted environment ---------------------------------------------------------------------------------------
pub open spec fn stale(row: Seq<Value>) -> bool { row.len() > 0 && row[0].rep == u32::MAX }
pub type HashCode = u64;
pub type Pooled<T> = T;
#[verifier::external_body]
pub struct ExecutionState { _p: core::marker::PhantomData<u8> }
#[verifier::external_body]
#[derive(Clone, Copy)]
pub struct ShardData { _p: core::marker::PhantomData<u8> }
#[verifier::external_body]
pub struct PoolSet { _p: core::marker::PhantomData<u8> }
impl PoolSet {
    #[verifier::external_body]
    pub fn get<T>(&self) -> (r: Vec<Value>) ensures r@.len() == 0 { unimplemented!() }
}
// A-db: with_pool_set runs the closure on the thread-local pool set
#[verifier::external_body]
pub fn with_pool_set<R, F: FnOnce(&PoolSet) -> R>(f: F) -> (r: R)
    ensures exists|ps: &PoolSet| f.ensures((ps,), r)
{ unimplemented!() }

/// the hash of a key (what `hash_code` computes over the first n_keys columns)
pub uninterp spec fn hcs(key: Seq<Value>) -> u64;
#[verifier::external_body]
pub fn hash_code(shard_data: ShardData, row: &[Value], n_keys: usize) -> (r: (ShardId, u64))
    requires n_keys <= row@.len()
    ensures r.1 == hcs(row@.subrange(0, n_keys as int))
{ unimplemented!() }

//@ item core-relations/src/table/mod.rs struct TableEntry
impl TableEntry {
    #[verifier::external_body]
    pub fn hashcode(&self) -> (r: u64) ensures r == self.hashcode { unimplemented!() }
}

/// A-db: the row store: all rows ever appended, stale ones marked in column 0 (Rows / RowBuffer)
#[verifier::external_body]
pub struct Rows { _p: core::marker::PhantomData<u8> }
impl Rows {
    pub uninterp spec fn view(&self) -> Seq<Seq<Value>>;
    #[verifier::external_body]
    pub fn get_row(&self, row: RowId) -> (r: Option<&[Value]>)
        requires row.ix() < self@.len(),
        ensures match r { Some(x) => x@ == self@[row.ix() as int] && !stale(self@[row.ix() as int]), None => stale(self@[row.ix() as int]) }
    { unimplemented!() }
    #[verifier::external_body]
    pub fn add_row(&mut self, row: &[Value]) -> (r: RowId)
        ensures r.ix() == old(self)@.len(), final(self)@ == old(self)@.push(row@)
    { unimplemented!() }
    #[verifier::external_body]
    pub fn set_stale(&mut self, row: RowId)
        requires row.ix() < old(self)@.len(), old(self)@[row.ix() as int].len() > 0,
        ensures
            final(self)@.len() == old(self)@.len(),
            stale(final(self)@[row.ix() as int]),
            final(self)@[row.ix() as int].len() == old(self)@[row.ix() as int].len(),
            forall|j: int| 0 <= j < old(self)@.len() && j != row.ix() ==> final(self)@[j] == old(self)@[j],
    { unimplemented!() }
}

/// A-hash: the sharded hash table as a map  row id -> stored hash code  (the entries; hashbrown behind it)
#[verifier::external_body]
#[verifier::reject_recursive_types(T)]
pub struct ShardedHashTable<T> { _p: core::marker::PhantomData<T> }
#[verifier::external_body]
pub struct Shards { _p: core::marker::PhantomData<u8> }
#[verifier::external_body]
pub struct Shard { _p: core::marker::PhantomData<u8> }
impl ShardedHashTable<TableEntry> {
    pub uninterp spec fn view(&self) -> Map<RowId, u64>;
    #[verifier::external_body]
    pub fn shard_data(&self) -> ShardData { unimplemented!() }
    // every level of `mut_shards()[i]` is viewed as the whole map: the shard split is below the abstraction
    #[verifier::external_body]
    pub fn mut_shards(&mut self) -> (r: &mut Shards)
        ensures r.view() == old(self)@, final(self)@ == final(r).view()
    { unimplemented!() }
}
impl Shards { pub uninterp spec fn view(&self) -> Map<RowId, u64>; }
impl Shard {
    pub uninterp spec fn view(&self) -> Map<RowId, u64>;
    // A-hash: insert_unique adds the entry (the caller guarantees no entry with an equal key exists)
    #[verifier::external_body]
    pub fn insert_unique<H: Fn(&TableEntry) -> u64>(&mut self, hash: u64, e: TableEntry, hasher: H)
        ensures final(self).view() == old(self).view().insert(e.row, e.hashcode)
    { unimplemented!() }
}
impl vstd::std_specs::core::IndexSpecImpl<usize> for Shards {
    open spec fn index_req(&self, i: &usize) -> bool { true }
}
impl core::ops::Index<usize> for Shards {
    type Output = Shard;
    #[verifier::external_body]
    fn index(&self, i: usize) -> (r: &Shard) ensures r.view() == self.view() { unimplemented!() }
}
impl core::ops::IndexMut<usize> for Shards {
    #[verifier::external_body]
    fn index_mut(&mut self, i: usize) -> (r: &mut Shard)
        ensures r.view() == old(self).view(), final(self).view() == final(r).view()
    { unimplemented!() }
}

// A-hash: get_entry_mut (hashbrown find_mut on the key's shard): an entry whose stored hash equals the key's hash and
// for which `test` holds, if there is one; the returned reference points at the entry's row id
#[verifier::external_body]
pub fn get_entry_mut<'a, F: Fn(RowId) -> bool>(row: &[Value], n_keys: usize, table: &'a mut ShardedHashTable<TableEntry>, test: F) -> (r: Option<&'a mut RowId>)
    requires n_keys <= row@.len(),
    ensures match r {
        Some(e) => old(table)@.contains_key(*e) && old(table)@[*e] == hcs(row@.subrange(0, n_keys as int)) && test.ensures((*e,), true)
            && final(table)@ == old(table)@.remove(*e).insert(*final(e), old(table)@[*e]),
        None => final(table)@ == old(table)@
            && forall|id: RowId| #[trigger] old(table)@.contains_key(id) && old(table)@[id] == hcs(row@.subrange(0, n_keys as int)) ==> test.ensures((id,), false),
    }
{ unimplemented!() }

/// the table's merge function as a pure function of (stored row, incoming row): changed? / merged row
/// (unit merge proves that the bridge's callback is of this shape: row_changes / merged_row)
pub uninterp spec fn mch(cur: Seq<Value>, new: Seq<Value>) -> bool;
pub uninterp spec fn mo(cur: Seq<Value>, new: Seq<Value>) -> Seq<Value>;
#[verifier::external_body]
pub struct MergeFn { _p: core::marker::PhantomData<u8> }
impl MergeFn {
    // A-db: the `dyn Fn` merge callback (see R-DYNCALL); it only ever sees an empty scratch vector
    #[verifier::external_body]
    pub fn vc_call(&self, state: &mut ExecutionState, cur: &[Value], new: &[Value], out: &mut Vec<Value>) -> (r: bool)
        requires old(out)@.len() == 0,
        ensures r == mch(cur@, new@), r ==> final(out)@ == mo(cur@, new@), !r ==> final(out)@.len() == 0,
    { unimplemented!() }
}

#[verifier::external_body]
#[verifier::reject_recursive_types(T)]
pub struct SegQueue<T> { _p: core::marker::PhantomData<T> }
impl<T> SegQueue<T> {
    #[verifier::external_body]
    pub fn pop(&self) -> Option<T> { unimplemented!() }
}
#[verifier::external_body]
pub struct RowBuffer { _p: core::marker::PhantomData<u8> }
pub uninterp spec fn table_arity() -> nat;
impl RowBuffer {
    // A-db: the non-stale rows of a staged buffer, in order; all of the table's arity
    #[verifier::external_body]
    pub fn non_stale(&self) -> (r: &Vec<Vec<Value>>)
        ensures forall|k: int| 0 <= k < r@.len() ==> (#[trigger] r@[k])@.len() == table_arity() && !stale(r@[k]@)
    { unimplemented!() }
}
#[verifier::external_body]
#[verifier::reject_recursive_types(K)]
#[verifier::reject_recursive_types(V)]
pub struct DenseIdMap<K, V> { _p: core::marker::PhantomData<(K, V)> }
impl<K, V> DenseIdMap<K, V> {
    #[verifier::external_body]
    pub fn iter(&self) -> (r: &Vec<(K, V)>) { unimplemented!() }
}
pub struct PendingState { pub pending_rows: DenseIdMap<ShardId, SegQueue<RowBuffer>> }

//@ item core-relations/src/table/mod.rs struct SortedWritesTable only data hash n_keys sort_by offsets pending_state merge

// ---------------- the keyed-map view ------------------------------------------------------------------------------
pub open spec fn keyof(row: Seq<Value>, n_keys: nat) -> Seq<Value> { row.subrange(0, n_keys as int) }

/// assumption on the merge function (the bridge's callback satisfies it: the merged row keeps the incoming keys)
pub open spec fn merge_keeps_key(n_keys: nat) -> bool {
    forall|a: Seq<Value>, b: Seq<Value>| #![trigger mo(a, b)] a.len() == table_arity() && b.len() == table_arity() && keyof(a, n_keys) == keyof(b, n_keys) && mch(a, b) && !stale(b)
        ==> mo(a, b).len() == table_arity() && keyof(mo(a, b), n_keys) == keyof(b, n_keys) && !stale(mo(a, b))
}

impl SortedWritesTable {
    pub open spec fn rows(&self) -> Seq<Seq<Value>> { self.data@ }
    pub open spec fn idx(&self) -> Map<RowId, u64> { self.hash@ }

    /// the table is a keyed map: every index entry points at a live row whose key hashes to the stored code, two
    /// entries never share a key, and every live row is indexed
    pub open spec fn wf_shape(&self) -> bool {
        &&& 1 <= self.n_keys <= table_arity()
        &&& self.rows().len() <= u32::MAX + 1
        &&& forall|i: int| 0 <= i < self.rows().len() ==> (#[trigger] self.rows()[i]).len() == table_arity()
        &&& (self.sort_by is Some ==> self.sort_by->Some_0.ix() < table_arity())
    }
    pub open spec fn wf_entries(&self) -> bool {
        forall|id: RowId| #[trigger] self.idx().contains_key(id) ==> id.ix() < self.rows().len() && !stale(self.rows()[id.ix() as int])
                && self.idx()[id] == hcs(keyof(self.rows()[id.ix() as int], self.n_keys as nat))
    }
    pub open spec fn wf_distinct(&self) -> bool {
        forall|a: RowId, b: RowId| #![trigger self.idx().contains_key(a), self.idx().contains_key(b)]
                self.idx().contains_key(a) && self.idx().contains_key(b) && a != b
                ==> keyof(self.rows()[a.ix() as int], self.n_keys as nat) != keyof(self.rows()[b.ix() as int], self.n_keys as nat)
    }
    pub open spec fn wf_indexed(&self) -> bool {
        forall|i: int| 0 <= i < self.rows().len() && !stale(#[trigger] self.rows()[i]) ==> self.idx().contains_key(RowId { rep: i as u32 })
    }
    pub open spec fn wf(&self) -> bool {
        self.wf_shape() && self.wf_entries() && self.wf_distinct() && self.wf_indexed()
    }

    /// the live rows (the contents of the map)
    pub open spec fn live(&self, row: Seq<Value>) -> bool {
        exists|id: RowId| #[trigger] self.idx().contains_key(id) && self.rows()[id.ix() as int] == row
    }
}

/// one pending row `q` applied to the table `a`, giving `b` (C05: the merge is applied on every collision):
/// key absent -> q is stored; key present with stored row cur -> cur is replaced by the MERGED row mo(cur, q) iff the
/// merge function reports a change, otherwise nothing changes. (Keys are unique among live rows, see wf_distinct.)
pub open spec fn applied(n_keys: nat, a: SortedWritesTable, q: Seq<Value>, b: SortedWritesTable) -> bool {
    &&& forall|cur: Seq<Value>| #![trigger a.live(cur)] a.live(cur) && keyof(cur, n_keys) == keyof(q, n_keys) ==>
            (if mch(cur, q) { forall|r: Seq<Value>| #![trigger b.live(r)] b.live(r) <==> ((a.live(r) && r != cur) || r == mo(cur, q)) }
             else { forall|r: Seq<Value>| #![trigger b.live(r)] b.live(r) <==> a.live(r) })
    &&& (forall|cur: Seq<Value>| #![trigger a.live(cur)] a.live(cur) ==> keyof(cur, n_keys) != keyof(q, n_keys)) ==>
            forall|r: Seq<Value>| #![trigger b.live(r)] b.live(r) <==> (a.live(r) || r == q)
}

/// the three ways one loop iteration of serial_insert relates the table before (a) and after (b)
pub open spec fn step_same(n: nat, a: SortedWritesTable, q: Seq<Value>, b: SortedWritesTable) -> bool {
    b.rows() =~= a.rows() && b.idx() =~= a.idx()
    && exists|id: RowId| #[trigger] a.idx().contains_key(id) && keyof(a.rows()[id.ix() as int], n) == keyof(q, n) && !mch(a.rows()[id.ix() as int], q)
}
pub open spec fn step_merge(n: nat, a: SortedWritesTable, q: Seq<Value>, b: SortedWritesTable) -> bool {
    exists|id: RowId| #[trigger] a.idx().contains_key(id) && keyof(a.rows()[id.ix() as int], n) == keyof(q, n) && mch(a.rows()[id.ix() as int], q)
        && a.rows().len() <= u32::MAX && b.rows().len() == a.rows().len() + 1
        && b.rows()[a.rows().len() as int] == mo(a.rows()[id.ix() as int], q)
        && stale(b.rows()[id.ix() as int])
        && (forall|j: int| 0 <= j < a.rows().len() && j != id.ix() ==> #[trigger] b.rows()[j] == a.rows()[j])
        && b.idx() =~= a.idx().remove(id).insert(RowId { rep: a.rows().len() as u32 }, a.idx()[id])
}
pub open spec fn has_key(n: nat, a: SortedWritesTable, q: Seq<Value>) -> bool {
    exists|id: RowId| #[trigger] a.idx().contains_key(id) && keyof(a.rows()[id.ix() as int], n) == keyof(q, n)
}
pub open spec fn step_new(n: nat, a: SortedWritesTable, q: Seq<Value>, b: SortedWritesTable) -> bool {
    (forall|id: RowId| #[trigger] a.idx().contains_key(id) ==> keyof(a.rows()[id.ix() as int], n) != keyof(q, n))
    && a.rows().len() <= u32::MAX && b.rows() =~= a.rows().push(q)
    && exists|h: u64| b.idx() =~= #[trigger] a.idx().insert(RowId { rep: a.rows().len() as u32 }, h)
}

pub proof fn lemma_applied(n: nat, a: SortedWritesTable, q: Seq<Value>, b: SortedWritesTable)
    requires
        a.wf(), n == a.n_keys,
        step_same(n, a, q, b) || step_merge(n, a, q, b) || step_new(n, a, q, b),
    ensures applied(n, a, q, b),
{
    let len0 = a.rows().len() as int;
    let newid = RowId { rep: len0 as u32 };
    if step_new(n, a, q, b) || step_merge(n, a, q, b) {
        assert(newid.ix() == len0);
        assert(!a.idx().contains_key(newid)) by { if a.idx().contains_key(newid) { assert(newid.ix() < a.rows().len()); } }
    }
    if step_new(n, a, q, b) {
        assert forall|cur: Seq<Value>| #![trigger a.live(cur)] a.live(cur) implies keyof(cur, n) != keyof(q, n) by {
            let c = choose|c: RowId| #[trigger] a.idx().contains_key(c) && a.rows()[c.ix() as int] == cur;
        }
        assert forall|r: Seq<Value>| #![trigger b.live(r)] b.live(r) <==> (a.live(r) || r == q) by {
            if b.live(r) {
                let c = choose|c: RowId| #[trigger] b.idx().contains_key(c) && b.rows()[c.ix() as int] == r;
                if c != newid { assert(a.idx().contains_key(c)); assert(b.rows()[c.ix() as int] == a.rows()[c.ix() as int]); }
            }
            if a.live(r) {
                let c = choose|c: RowId| #[trigger] a.idx().contains_key(c) && a.rows()[c.ix() as int] == r;
                assert(b.idx().contains_key(c)); assert(b.rows()[c.ix() as int] == r);
            }
            if r == q { assert(b.idx().contains_key(newid)); assert(b.rows()[newid.ix() as int] == q); }
        }
    } else if step_merge(n, a, q, b) {
        let id = choose|id: RowId| #[trigger] a.idx().contains_key(id) && keyof(a.rows()[id.ix() as int], n) == keyof(q, n) && mch(a.rows()[id.ix() as int], q)
            && b.rows().len() == a.rows().len() + 1
            && b.rows()[a.rows().len() as int] == mo(a.rows()[id.ix() as int], q)
            && stale(b.rows()[id.ix() as int])
            && (forall|j: int| 0 <= j < a.rows().len() && j != id.ix() ==> #[trigger] b.rows()[j] == a.rows()[j])
            && b.idx() =~= a.idx().remove(id).insert(RowId { rep: a.rows().len() as u32 }, a.idx()[id]);
        let cur0 = a.rows()[id.ix() as int];
        assert forall|cur: Seq<Value>| #![trigger a.live(cur)] a.live(cur) && keyof(cur, n) == keyof(q, n) implies
            (if mch(cur, q) { forall|r: Seq<Value>| #![trigger b.live(r)] b.live(r) <==> ((a.live(r) && r != cur) || r == mo(cur, q)) }
             else { forall|r: Seq<Value>| #![trigger b.live(r)] b.live(r) <==> a.live(r) }) by {
            let c = choose|c: RowId| #[trigger] a.idx().contains_key(c) && a.rows()[c.ix() as int] == cur;
            assert(c == id);
            assert(cur == cur0);
            assert forall|r: Seq<Value>| #![trigger b.live(r)] b.live(r) <==> ((a.live(r) && r != cur) || r == mo(cur, q)) by {
                if b.live(r) {
                    let d = choose|d: RowId| #[trigger] b.idx().contains_key(d) && b.rows()[d.ix() as int] == r;
                    if d != newid {
                        assert(a.idx().contains_key(d) && d != id);
                        assert(b.rows()[d.ix() as int] == a.rows()[d.ix() as int]);
                        assert(keyof(a.rows()[d.ix() as int], n) != keyof(cur0, n));
                    }
                }
                if a.live(r) && r != cur {
                    let d = choose|d: RowId| #[trigger] a.idx().contains_key(d) && a.rows()[d.ix() as int] == r;
                    assert(d != id);
                    assert(b.idx().contains_key(d)); assert(b.rows()[d.ix() as int] == r);
                }
                if r == mo(cur, q) { assert(b.idx().contains_key(newid)); assert(b.rows()[newid.ix() as int] == r); }
            }
        }
        assert(a.live(cur0));
    } else {
        let id = choose|id: RowId| #[trigger] a.idx().contains_key(id) && keyof(a.rows()[id.ix() as int], n) == keyof(q, n) && !mch(a.rows()[id.ix() as int], q);
        let cur0 = a.rows()[id.ix() as int];
        assert forall|cur: Seq<Value>| #![trigger a.live(cur)] a.live(cur) && keyof(cur, n) == keyof(q, n) implies
            (if mch(cur, q) { forall|r: Seq<Value>| #![trigger b.live(r)] b.live(r) <==> ((a.live(r) && r != cur) || r == mo(cur, q)) }
             else { forall|r: Seq<Value>| #![trigger b.live(r)] b.live(r) <==> a.live(r) }) by {
            let c = choose|c: RowId| #[trigger] a.idx().contains_key(c) && a.rows()[c.ix() as int] == cur;
            assert(c == id);
        }
        assert(a.live(cur0));
    }
}

/// trigger-only marker for the witness sequences
pub open spec fn wit(ts: Seq<SortedWritesTable>, qs: Seq<Seq<Value>>) -> bool { true }

/// `last` is `first` after applying the pending rows qs one after the other
pub open spec fn chain(n_keys: nat, first: SortedWritesTable, last: SortedWritesTable, ts: Seq<SortedWritesTable>, qs: Seq<Seq<Value>>) -> bool {
    &&& ts.len() == qs.len() + 1
    &&& ts[0] == first
    &&& ts.last() == last
    &&& forall|k: int| 0 <= k < qs.len() ==> applied(n_keys, #[trigger] ts[k], qs[k], ts[k + 1])
}

pub proof fn lemma_chain_push(n: nat, first: SortedWritesTable, t0: SortedWritesTable, ts: Seq<SortedWritesTable>, qs: Seq<Seq<Value>>, q: Seq<Value>, t1: SortedWritesTable)
    requires chain(n, first, t0, ts, qs), applied(n, t0, q, t1),
    ensures chain(n, first, t1, ts.push(t1), qs.push(q)),
{
    let ts2 = ts.push(t1);
    let qs2 = qs.push(q);
    assert forall|k: int| 0 <= k < qs2.len() implies applied(n, #[trigger] ts2[k], qs2[k], ts2[k + 1]) by {
        if k < qs.len() { assert(ts2[k] == ts[k] && ts2[k + 1] == ts[k + 1] && qs2[k] == qs[k]); }
        else { assert(ts2[k] == t0 && ts2[k + 1] == t1 && qs2[k] == q); }
    }
}

//@ impl core-relations/src/table/mod.rs impl SortedWritesTable
//@ fn serial_insert
//@ ret r
//@ rewrite R-DYNCALL
//@ rewrite R-ITER 2 4
//@ rewrite R-ASSERT
//@ rewrite R-CLOSPAT &(Value,RowId) Value &(Value,RowId) Value
//@ rewrite R-CLOSANN 0 &PoolSet Vec<Value>
//@ rewrite R-CLOSANN 1 RowId bool
//@ rewrite R-CLOSANN 4 RowId bool
//@ at attr
    #[verifier::exec_allows_no_decreases_clause]
//@ at sig
        requires old(self).wf(), merge_keeps_key(old(self).n_keys as nat),
        ensures
            final(self).wf(),
            final(self).n_keys == old(self).n_keys,
            final(self).sort_by == old(self).sort_by,
            // C05: the final contents are the initial ones with every pending row applied through the merge function
            exists|ts: Seq<SortedWritesTable>, qs: Seq<Seq<Value>>| #![trigger wit(ts, qs)] wit(ts, qs) && chain(old(self).n_keys as nat, *old(self), *final(self), ts, qs),
//@ at entry
        let ghost mut ts: Seq<SortedWritesTable> = seq![*self];
        let ghost mut qs: Seq<Seq<Value>> = Seq::empty();
//@ at tail
        proof { assert(wit(ts, qs)); }
//@ at closure 0 spec
            ensures r@.len() == 0
//@ at closure 1 spec
                            requires row.ix() < self.data@.len()
                            ensures r == (!stale(self.data@[row.ix() as int]) && keyof(self.data@[row.ix() as int], n_keys as nat) =~= key@)
//@ at closure 2 spec
                                    ensures r == __p.0
//@ at closure 3 spec
                                ensures r == __p.0
//@ at closure 4 spec
                            requires row.ix() < self.data@.len()
                            ensures r == (!stale(self.data@[row.ix() as int]) && keyof(self.data@[row.ix() as int], n_keys as nat) =~= key@)
//@ at before-loop 0
        #[verifier::loop_isolation(false)]
//@ at loop 0 spec
            invariant
                self.wf_shape(),
                    self.wf_entries(),
                    self.wf_distinct(),
                    self.wf_indexed(),
                    chain(n_keys as nat, *old(self), *self, ts, qs),
                    merge_keeps_key(n_keys as nat), n_keys == self.n_keys, scratch@.len() == 0,
                    self.n_keys == old(self).n_keys, self.sort_by == old(self).sort_by,
//@ at before-loop 1
                #[verifier::loop_isolation(false)]
//@ at loop 1 spec
                    invariant
                self.wf_shape(),
                    self.wf_entries(),
                    self.wf_distinct(),
                    self.wf_indexed(),
                    chain(n_keys as nat, *old(self), *self, ts, qs),
                    merge_keeps_key(n_keys as nat), n_keys == self.n_keys, scratch@.len() == 0,
                    self.n_keys == old(self).n_keys, self.sort_by == old(self).sort_by,
//@ at before-loop 2
                    #[verifier::loop_isolation(false)]
//@ at loop 2 spec
                        invariant
                            forall|k: int| 0 <= k < __it2.snapshot@.remaining().len() ==> (#[trigger] __it2.snapshot@.remaining()[k])@.len() == table_arity() && !stale(__it2.snapshot@.remaining()[k]@),
                self.wf_shape(),
                    self.wf_entries(),
                    self.wf_distinct(),
                    self.wf_indexed(),
                    chain(n_keys as nat, *old(self), *self, ts, qs),
                    merge_keeps_key(n_keys as nat), n_keys == self.n_keys, scratch@.len() == 0,
                    self.n_keys == old(self).n_keys, self.sort_by == old(self).sort_by,
//@ at loop 2 body-start
                        let ghost t0 = *self;
//@ at loop 2 body-end
                        proof {
                            assert(t0.wf());
                            if self.rows().len() == t0.rows().len() { assert(step_same(n_keys as nat, t0, query@, *self)); }
                            else if has_key(n_keys as nat, t0, query@) { assert(step_merge(n_keys as nat, t0, query@, *self)); }
                            else {
                                assert(t0.rows().len() <= u32::MAX);
                                assert(self.rows() =~= t0.rows().push(query@));
                                assert(self.idx() =~= t0.idx().insert(RowId { rep: t0.rows().len() as u32 }, hcs(keyof(query@, n_keys as nat))));
                                assert(step_new(n_keys as nat, t0, query@, *self));
                            }
                            lemma_applied(n_keys as nat, t0, query@, *self);
                            lemma_chain_push(n_keys as nat, *old(self), t0, ts, qs, query@, *self);
                            ts = ts.push(*self);
                            qs = qs.push(query@);
                        }
//@ at before-loop 3
                #[verifier::loop_isolation(false)]
//@ at loop 3 spec
                    invariant
                self.wf_shape(),
                    self.wf_entries(),
                    self.wf_distinct(),
                    self.wf_indexed(),
                    chain(n_keys as nat, *old(self), *self, ts, qs),
                    merge_keeps_key(n_keys as nat), n_keys == self.n_keys, scratch@.len() == 0,
                    self.n_keys == old(self).n_keys, self.sort_by == old(self).sort_by,
//@ at before-loop 4
                    #[verifier::loop_isolation(false)]
//@ at loop 4 spec
                        invariant
                            forall|k: int| 0 <= k < __it4.snapshot@.remaining().len() ==> (#[trigger] __it4.snapshot@.remaining()[k])@.len() == table_arity() && !stale(__it4.snapshot@.remaining()[k]@),
                self.wf_shape(),
                    self.wf_entries(),
                    self.wf_distinct(),
                    self.wf_indexed(),
                    chain(n_keys as nat, *old(self), *self, ts, qs),
                    merge_keeps_key(n_keys as nat), n_keys == self.n_keys, scratch@.len() == 0,
                    self.n_keys == old(self).n_keys, self.sort_by == old(self).sort_by,
//@ at loop 4 body-start
                        let ghost t0 = *self;
//@ at loop 4 body-end
                        proof {
                            assert(t0.wf());
                            if self.rows().len() == t0.rows().len() { assert(step_same(n_keys as nat, t0, query@, *self)); }
                            else if has_key(n_keys as nat, t0, query@) { assert(step_merge(n_keys as nat, t0, query@, *self)); }
                            else {
                                assert(t0.rows().len() <= u32::MAX);
                                assert(self.rows() =~= t0.rows().push(query@));
                                assert(self.idx() =~= t0.idx().insert(RowId { rep: t0.rows().len() as u32 }, hcs(keyof(query@, n_keys as nat))));
                                assert(step_new(n_keys as nat, t0, query@, *self));
                            }
                            lemma_applied(n_keys as nat, t0, query@, *self);
                            lemma_chain_push(n_keys as nat, *old(self), t0, ts, qs, query@, *self);
                            ts = ts.push(*self);
                            qs = qs.push(query@);
                        }
//@ end-fn
//@ end-impl

} // verus!
fn main() {}
