#![feature(allocator_api)]
// U-REBUILD / driver: egglog-bridge/src/lib.rs  EGraph::{next_ts, inc_ts, rebuild (native branch),
// run_rules_inner, flush_updates_inner} and run_rules_impl
use vstd::prelude::*;
use std::sync::Arc;
verus! {
//@ include prelude/numeric_id.vs
//@ include prelude/bridge.vs
broadcast use {nid::ax_id_eq, nid::ax_id_cmp, nid::ax_id_obeys_eq, nid::ax_id_obeys_cmp, nid::ax_id_obeys_partial_cmp, nid::ax_id_partial_cmp};

// ---- more trusted environment, specific to this unit --------------------------------------------
//@ idtype BaseValueId
//@ item egglog-bridge/src/lib.rs enum ColumnTy derive Clone,Copy
#[verifier::external_body]
pub struct CachedPlan { _p: core::marker::PhantomData<u8> }
pub mod core_relations {
    pub use super::{CachedPlan, AtomId, Database};
}

/// A-hash: DenseIdMap as the sequence of its (key, value) entries in key order
#[verifier::external_body]
#[verifier::reject_recursive_types(K)]
#[verifier::reject_recursive_types(V)]
pub struct DenseIdMap<K, V> { _p: core::marker::PhantomData<(K, V)> }
impl<K: NumericId, V> DenseIdMap<K, V> {
    pub uninterp spec fn view(&self) -> Seq<(K, V)>;
    #[verifier::external_body]
    pub fn iter(&self) -> (r: &Vec<(K, V)>)
        ensures r@ == self.view()
    { unimplemented!() }
    #[verifier::external_body]
    pub fn next_id(&self) -> K { unimplemented!() }
}

/// A-hash: DenseIdMapWithReuse as a total map (indexing a missing key panics in the real code)
#[verifier::external_body]
#[verifier::reject_recursive_types(K)]
#[verifier::reject_recursive_types(V)]
pub struct DenseIdMapWithReuse<K, V> { _p: core::marker::PhantomData<(K, V)> }
impl<K: NumericId, V> DenseIdMapWithReuse<K, V> {
    pub uninterp spec fn at(&self, k: K) -> V;
}
impl<K: NumericId, V> vstd::std_specs::core::IndexSpecImpl<K> for DenseIdMapWithReuse<K, V> {
    open spec fn index_req(&self, k: &K) -> bool { true }
}
impl<K: NumericId, V> std::ops::Index<K> for DenseIdMapWithReuse<K, V> {
    type Output = V;
    #[verifier::external_body]
    fn index(&self, k: K) -> (r: &V)
        ensures *r == self.at(k)
    { unimplemented!() }
}
impl<K: NumericId, V> std::ops::IndexMut<K> for DenseIdMapWithReuse<K, V> {
    #[verifier::external_body]
    fn index_mut(&mut self, k: K) -> (r: &mut V)
        ensures
            *r == old(self).at(k),
            final(self).at(k) == *final(r),
            forall|j: K| j != k ==> final(self).at(j) == old(self).at(j),
    { unimplemented!() }
}

/// ghost record of one `Query::add_rules_from_cached` call (its behaviour is verified in unit `semi`)
pub struct QCall { pub query: rule::Query, pub mid_ts: Timestamp, pub plan: CachedPlanInfo }
impl RuleSetBuilder {
    pub uninterp spec fn qlog(&self) -> Seq<QCall>;
}

pub mod rule {
    use super::*;
    verus! {
    #[verifier::external_body]
    pub struct Query { _p: core::marker::PhantomData<u8> }
    impl Query {
        // A-db: building a plan does not touch table contents
        #[verifier::external_body]
        pub fn build_cached_plan(&self, db: &mut Database, desc: &Arc<str>) -> (r: Result<CachedPlanInfo>)
            ensures
                final(db).same_frame(old(db)),
                forall|t: TableId| final(db).table_len(t) == old(db).table_len(t),
                forall|ts: Seq<TableId>| final(db).canonical(ts) == old(db).canonical(ts),
                final(db).ran() == old(db).ran(),
        { unimplemented!() }

        #[verifier::external_body]
        pub fn add_rules_from_cached(&self, rsb: &mut RuleSetBuilder, mid_ts: Timestamp, cached_plan: &CachedPlanInfo)
            ensures
                final(rsb).qlog() == old(rsb).qlog().push(QCall { query: *self, mid_ts: mid_ts, plan: *cached_plan }),
                final(rsb).mids() == old(rsb).mids().push(mid_ts),
        { unimplemented!() }
    }
    }
}

//@ item egglog-bridge/src/lib.rs struct RuleInfo
//@ item egglog-bridge/src/lib.rs struct CachedPlanInfo
//@ item egglog-bridge/src/lib.rs struct FunctionInfo only table
//@ item egglog-bridge/src/lib.rs struct EGraph only db uf_table id_counter timestamp_counter rules funcs panic_message report_level
//@ item egglog-reports/src/lib.rs struct IterationReport

// ---------------- specification ------------------------------------------------------------------
/// C03: the timestamp rule i's delta variants must be built with: the rule's PREVIOUS last_run_at
/// (or this run's timestamp if the same rule already occurred earlier in `rules`)
pub open spec fn expected_mid(info0: DenseIdMapWithReuse<RuleId, RuleInfo>, rules: Seq<RuleId>, next_ts: Timestamp, i: int) -> Timestamp {
    if exists|j: int| 0 <= j < i && rules[j] == rules[i] { next_ts } else { info0.at(rules[i]).last_run_at }
}

pub open spec fn func_tables(m: DenseIdMap<FunctionId, FunctionInfo>) -> Seq<TableId> {
    Seq::new(m.view().len(), |i: int| m.view()[i].1.table)
}

impl EGraph {
    /// structural well-formedness established by EGraph::new: the union-find table of the database is
    /// the one this EGraph names (a DisplacedTable, which supports native rebuilding)
    pub open spec fn wf(&self) -> bool { self.db.uf() == self.uf_table }
    /// C04: every function table and every container mentions canonical ids only
    pub open spec fn canonical(&self) -> bool { self.db.canonical(func_tables(self.funcs)) }
    pub open spec fn ts(&self) -> nat { self.db.counter(self.timestamp_counter) }
    pub open spec fn same_shape(&self, o: &EGraph) -> bool {
        &&& self.uf_table == o.uf_table
        &&& self.timestamp_counter == o.timestamp_counter
        &&& self.funcs == o.funcs
        &&& self.db.uf() == o.db.uf()
    }
}

//@ impl egglog-bridge/src/lib.rs impl Timestamp
//@ fn to_value
//@ ret r
//@ at sig
        ensures r.rep == self.rep,
//@ end-fn
//@ end-impl

//@ fn egglog-bridge/src/lib.rs run_rules_impl
//@ ret r
//@ rewrite R-ITER 0 1
//@ at sig
    ensures
        final(db).same_frame(old(db)),
        final(db).uf_len() >= old(db).uf_len(),
        // canonicity survives unless the union-find grew; an Err (plan building failed) changes nothing
        forall|ts: Seq<TableId>| old(db).canonical(ts) && (r is Err || final(db).uf_len() == old(db).uf_len()) ==> final(db).canonical(ts),
        // C03: the rule set that was run contains, for rule i, the delta variants built with the rule's previous last_run_at
        r is Ok ==> final(db).ran().len() == old(db).ran().len() + 1
            && final(db).ran().last().len() == rules@.len()
            && forall|i: int| 0 <= i < rules@.len() ==> #[trigger] final(db).ran().last()[i] == expected_mid(*old(rule_info), rules@, next_ts, i),
        r is Err ==> final(db).ran() == old(db).ran(),
        // C03: every rule that was run is stamped with the timestamp of this run
        r is Ok ==> forall|i: int| 0 <= i < rules@.len() ==> (#[trigger] final(rule_info).at(rules@[i])).last_run_at == next_ts,
        forall|k: RuleId| (forall|i: int| 0 <= i < rules@.len() ==> rules@[i] != k) ==> final(rule_info).at(k) == old(rule_info).at(k),
//@ at loop 0 spec
        invariant
            db.same_frame(old(db)),
            forall|t: TableId| db.table_len(t) == old(db).table_len(t),
            forall|ts: Seq<TableId>| db.canonical(ts) == old(db).canonical(ts),
            forall|k: RuleId| (forall|i: int| 0 <= i < rules@.len() ==> rules@[i] != k) ==> rule_info.at(k) == old(rule_info).at(k),
            forall|k: RuleId| (#[trigger] rule_info.at(k)).last_run_at == old(rule_info).at(k).last_run_at,
            db.ran() == old(db).ran(),
            forall|i: int| 0 <= i < __it0.index@ ==> (#[trigger] rule_info.at(rules@[i])).cached_plan is Some,
//@ at before-loop 1
    let ghost info1 = *rule_info;
//@ at loop 1 spec
        invariant
            forall|k: RuleId| (forall|i: int| 0 <= i < rules@.len() ==> rules@[i] != k) ==> rule_info.at(k) == old(rule_info).at(k),
            forall|i: int| 0 <= i < rules@.len() ==> (#[trigger] rule_info.at(rules@[i])).cached_plan is Some,
            forall|i: int| 0 <= i < __it1.index@ ==> (#[trigger] rule_info.at(rules@[i])).last_run_at == next_ts,
            forall|k: RuleId| (forall|j: int| 0 <= j < __it1.index@ ==> rules@[j] != k) ==> (#[trigger] rule_info.at(k)).last_run_at == old(rule_info).at(k).last_run_at,
            rsb.mids().len() == __it1.index@,
            forall|i: int| 0 <= i < __it1.index@ ==> #[trigger] rsb.mids()[i] == expected_mid(*old(rule_info), rules@, next_ts, i),
//@ end-fn

//@ impl egglog-bridge/src/lib.rs impl EGraph
//@ fn next_ts
//@ ret r
//@ at sig
        ensures r.ix() == self.ts(),
//@ end-fn

//@ fn fresh_id
//@ ret r
//@ at sig
        // ids are handed out in increasing order: the fresh id is the previous value of the id counter
        ensures
            r.ix() == old(self).db.counter(old(self).id_counter),
            final(self).db.counter(final(self).id_counter) == old(self).db.counter(old(self).id_counter) + 1,
            final(self).same_shape(old(self)),
//@ end-fn

//@ fn get_canon_in_uf
//@ ret r
//@ rewrite R-CLOSANN 0 Row Value
//@ at sig
        requires self.wf(),
        // C01: what `check` / `extract` use to compare ids is the union-find's representative
        ensures r == self.db.canon(val),
//@ at closure 0 spec
            requires row.vals@.len() == 3
            ensures r == row.vals@[1]
//@ end-fn

//@ fn get_canon_repr
//@ ret r
//@ at sig
        requires self.wf(),
        ensures r == (if ty is Id { self.db.canon(val) } else { val }),
//@ end-fn

//@ fn inc_ts
//@ at sig
        ensures
            final(self).ts() == old(self).ts() + 1,
            final(self).same_shape(old(self)),
            final(self).rules == old(self).rules,
            final(self).canonical() == old(self).canonical(),
            final(self).db.uf_len() == old(self).db.uf_len(),
            final(self).db.phase() == 0,
            final(self).db.panic_pending() == old(self).db.panic_pending(),
//@ end-fn

//@ fn rebuild
//@ ret r
//@ rewrite R-CUTTAIL 0
//@ rewrite R-ITER 0
//@ at attr
    #[verifier::exec_allows_no_decreases_clause]
//@ at sig
        requires old(self).wf(),
        ensures
            r is Ok,
            final(self).same_shape(old(self)),
            final(self).rules == old(self).rules,
            // C04: on return every table and container is canonical
            final(self).canonical(),
            // C03: the timestamp moved strictly forward
            final(self).ts() > old(self).ts(),
//@ at loop 0 spec
                invariant
                    self.same_shape(old(self)),
                    self.wf(),
                    self.rules == old(self).rules,
                    self.db == old(self).db,
                    tables@.len() == __it0.index@,
                    forall|i: int| 0 <= i < tables@.len() ==> tables@[i] == (#[trigger] self.funcs.view()[i]).1.table,
//@ at loop 1 spec
                invariant
                    self.same_shape(old(self)),
                    self.wf(),
                    self.rules == old(self).rules,
                    tables@ == func_tables(self.funcs),
                    self.ts() >= old(self).ts(),
                ensures
                    self.canonical(),
                    self.ts() > old(self).ts(),
//@ at before-loop 1
            proof { assert(tables@ =~= func_tables(self.funcs)); }
//@ end-fn

//@ fn flush_updates_inner
//@ ret r
//@ at sig
        requires old(self).wf(), old(self).canonical(), !old(self).db.panic_pending(),
        ensures
            final(self).same_shape(old(self)),
            final(self).canonical(),
            final(self).ts() > old(self).ts(),
            // C05 (last sentence) / C09: a panic raised by a merge function (a :no-merge conflict) while the staged updates
            // are merged or while rebuilding must not be left unread: it would be lost, or be reported by a later,
            // unrelated command. KNOWN FINDING F4: this function never reads the side channel.
            !final(self).db.panic_pending(), // [only: C05]
//@ end-fn

//@ fn run_rules_inner
//@ ret r
//@ rewrite R-SIDECHAN panic_message db
//@ at sig
        requires old(self).wf(), old(self).canonical(), !old(self).db.panic_pending(),
        ensures
            final(self).same_shape(old(self)),
            // C04: canonical on every exit, Ok and Err alike (failed commands included)
            final(self).canonical(),
            // C03: a successful run strictly advances the timestamp, rebuild or not
            r is Ok ==> final(self).ts() > old(self).ts(),
            // C05 (last sentence): a successful run leaves no panic message unread - a conflict raised by the rules, by
            // the merge of their writes or by the rebuild (collisions created by rebuilding) is reported by THIS command
            r is Ok ==> !final(self).db.panic_pending(), // [only: C05]
//@ end-fn
//@ end-impl

} // verus!
fn main() {}
