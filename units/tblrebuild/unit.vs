#![feature(allocator_api)]
// U-TBLREBUILD: core-relations/src/table/rebuild.rs  SortedWritesTable::rebuild_nonincremental, serial branch (lifted):
// the table side of one value-level rebuild pass (C01 / C04: no stale-keyed row survives; C03: a rebuilt row counts as new).
// For every row the rebuilder reports as changed, the key of the stored row is staged for removal and the rebuilt row is
// staged for insertion with its sort column set to next_ts; nothing else is staged; `changed` iff something was staged.
use vstd::prelude::*;
use std::cmp;
use vstd::std_specs::cmp::*;
use vstd::std_specs::iter::IteratorSpec;
verus! {
global size_of usize == 8;
//@ include prelude/numeric_id.vs
//@ include prelude/std_extra.vs
broadcast use {nid::ax_id_eq, nid::ax_id_cmp, nid::ax_id_obeys_eq, nid::ax_id_obeys_cmp, nid::ax_id_obeys_partial_cmp, nid::ax_id_partial_cmp, stdx::ax_iter_seq_vec};
//@ idtype Value RowId ColumnId

// ---- trusted environment ---------------------------------------------------------------------------------------
pub open spec fn stale(row: Seq<Value>) -> bool { row.len() > 0 && row[0].rep == u32::MAX }
#[verifier::external_body]
pub struct ExecutionState { _p: core::marker::PhantomData<u8> }
impl Clone for ExecutionState {
    #[verifier::external_body]
    fn clone(&self) -> Self { unimplemented!() }
}
#[verifier::external_body]
pub struct RowBuffer { _p: core::marker::PhantomData<u8> }
impl RowBuffer { pub uninterp spec fn view(&self) -> Seq<Seq<Value>>; }
/// A-db: Rows as the sequence of all rows ever appended (contract PROVED in unit insert over RowBuffer)
pub struct Rows { pub data: RowBuffer }
impl Rows {
    pub open spec fn view(&self) -> Seq<Seq<Value>> { self.data@ }
    #[verifier::external_body]
    pub fn get_row(&self, row: RowId) -> (r: Option<&[Value]>)
        requires row.ix() < self@.len(), self@[row.ix() as int].len() > 0,
        ensures match r { Some(x) => x@ == self@[row.ix() as int] && !stale(self@[row.ix() as int]), None => stale(self@[row.ix() as int]) }
    { unimplemented!() }
    #[verifier::external_body]
    pub fn next_row(&self) -> (r: RowId) ensures r.ix() == self@.len() { unimplemented!() }
}
/// one staged mutation
pub enum Staged { Remove(Seq<Value>), Insert(Seq<Value>) }
/// A-db: a mutation buffer of the table (Box<dyn MutationBuffer>): ghost log of what was staged, in order
#[verifier::external_body]
pub struct MutBuf { _p: core::marker::PhantomData<u8> }
impl MutBuf {
    pub uninterp spec fn log(&self) -> Seq<Staged>;
    #[verifier::external_body]
    pub fn stage_remove(&mut self, key: &[Value]) ensures final(self).log() == old(self).log().push(Staged::Remove(key@)) { unimplemented!() }
    #[verifier::external_body]
    pub fn stage_insert(&mut self, row: &Vec<Value>) ensures final(self).log() == old(self).log().push(Staged::Insert(row@)) { unimplemented!() }
}
/// A-db: TaggedRowBuffer: (row id, rebuilt row) pairs; the non-stale ones (all, for a buffer only appended to)
#[verifier::external_body]
pub struct TaggedRowBuffer { _p: core::marker::PhantomData<u8> }
impl TaggedRowBuffer {
    pub uninterp spec fn view(&self) -> Seq<(RowId, Seq<Value>)>;
    #[verifier::external_body]
    pub fn new(n_columns: usize) -> (r: Self) ensures r@.len() == 0 { unimplemented!() }
    #[verifier::external_body]
    pub fn is_empty(&self) -> (r: bool) ensures r == (self@.len() == 0) { unimplemented!() }
    #[verifier::external_body]
    pub fn clear(&mut self) ensures final(self)@.len() == 0 { unimplemented!() }
    // R-ITERPAIRMUT: non_stale_mut() as a vector of (row id, row) the loop may write to
    #[verifier::external_body]
    pub fn vc_non_stale_mut(&mut self) -> (r: &mut Vec<(RowId, Vec<Value>)>)
        ensures r@.len() == old(self)@.len(), forall|i: int| 0 <= i < r@.len() ==> (#[trigger] r@[i]).0 == old(self)@[i].0 && r@[i].1@ == old(self)@[i].1
    { unimplemented!() }
}
/// what the rebuilder reports for rows [start, end) of a row store: (row id, rebuilt row) for every row that mentions a
/// non-canonical id (unit disp proves this for Canonicalizer::rebuild_subset; rebuild_buf is its scan over a row range)
pub uninterp spec fn rb_out(r: &RebuilderStub, rows: Seq<Seq<Value>>, start: nat, end: nat) -> Seq<(RowId, Seq<Value>)>;
// A-db: the report is a scan: an empty range reports nothing, adjacent ranges concatenate
pub axiom fn ax_rb_empty(r: &RebuilderStub, rows: Seq<Seq<Value>>, a: nat)
    ensures rb_out(r, rows, a, a) == Seq::<(RowId, Seq<Value>)>::empty();
pub axiom fn ax_rb_split(r: &RebuilderStub, rows: Seq<Seq<Value>>, a: nat, b: nat, c: nat)
    requires a <= b <= c
    ensures rb_out(r, rows, a, b) + rb_out(r, rows, b, c) == rb_out(r, rows, a, c);
#[verifier::external_body]
pub struct RebuilderStub { _p: core::marker::PhantomData<u8> }
impl RebuilderStub {
    // A-db: &dyn Rebuilder::rebuild_buf appends its report for the given row range; every reported row belongs to the
    // table (id in range, same arity)
    #[verifier::external_body]
    pub fn rebuild_buf(&self, buf: &RowBuffer, start: RowId, end: RowId, out: &mut TaggedRowBuffer, exec_state: &mut ExecutionState)
        requires start.ix() <= end.ix() <= buf@.len(),
        ensures
            final(out)@ == old(out)@ + rb_out(self, buf@, start.ix(), end.ix()),
            forall|i: int| 0 <= i < rb_out(self, buf@, start.ix(), end.ix()).len() ==>
                (#[trigger] rb_out(self, buf@, start.ix(), end.ix())[i]).0.ix() < buf@.len() && rb_out(self, buf@, start.ix(), end.ix())[i].1.len() == buf@[rb_out(self, buf@, start.ix(), end.ix())[i].0.ix() as int].len(),
    { unimplemented!() }
}
/// A-db: the table's rebuild index (value -> subset of rows mentioning it) and the rebuilder's scan of one such subset
#[verifier::external_body]
#[verifier::reject_recursive_types(T)]
pub struct Index<T> { _p: core::marker::PhantomData<T> }
#[verifier::external_body]
pub struct ColumnIndex { _p: core::marker::PhantomData<u8> }
#[verifier::external_body]
pub struct SubsetStub { _p: core::marker::PhantomData<u8> }
#[verifier::external_body]
pub struct WrappedRef { _p: core::marker::PhantomData<u8> }
impl WrappedRef { pub uninterp spec fn rows(&self) -> Seq<Seq<Value>>; }
impl Index<ColumnIndex> {
    #[verifier::external_body]
    pub fn get_subset(&self, v: &Value) -> (r: Option<&SubsetStub>) { unimplemented!() }
}
pub uninterp spec fn rs_out(r: &RebuilderStub, rows: Seq<Seq<Value>>, s: &SubsetStub) -> Seq<(RowId, Seq<Value>)>;
impl RebuilderStub {
    // A-db: &dyn Rebuilder::rebuild_subset appends (row id, rebuilt row) for the rows of the subset that change
    // (Canonicalizer::rebuild_subset is proved in unit disp); every reported row belongs to the table
    #[verifier::external_body]
    pub fn rebuild_subset(&self, table: &WrappedRef, subset: &SubsetStub, out: &mut TaggedRowBuffer, exec_state: &mut ExecutionState)
        ensures
            final(out)@ == old(out)@ + rs_out(self, table.rows(), subset),
            forall|i: int| 0 <= i < rs_out(self, table.rows(), subset).len() ==>
                (#[trigger] rs_out(self, table.rows(), subset)[i]).0.ix() < table.rows().len() && rs_out(self, table.rows(), subset)[i].1.len() == table.rows()[rs_out(self, table.rows(), subset)[i].0.ix() as int].len(),
    { unimplemented!() }
}
pub const STEP_SIZE: usize = 2048;   // the function-local constant of rebuild_nonincremental (any positive step is correct)

//@ item core-relations/src/table/mod.rs struct SortedWritesTable only data n_keys n_columns sort_by rebuild_index
impl SortedWritesTable {
    #[verifier::external_body]
    pub fn new_buffer(&self) -> (r: MutBuf) ensures r.log() == Seq::<Staged>::empty() { unimplemented!() }
    pub open spec fn shape_ok(&self) -> bool {
        &&& self.data@.len() <= u32::MAX + 1
        &&& self.n_keys <= self.n_columns && 1 <= self.n_columns
        &&& forall|i: int| 0 <= i < self.data@.len() ==> (#[trigger] self.data@[i]).len() == self.n_columns
        &&& (self.sort_by is Some ==> self.sort_by->Some_0.ix() < self.n_columns)
    }
}

/// what must be staged for the report `out[0..j)`: for each entry, remove the stored row's key if that row is live, then
/// insert the rebuilt row with the sort column overwritten by next_ts
pub open spec fn restamp(row: Seq<Value>, sort_by: Option<ColumnId>, ts: Value) -> Seq<Value> {
    if sort_by is Some { row.update(sort_by->Some_0.ix() as int, ts) } else { row }
}
pub open spec fn expected(t: SortedWritesTable, out: Seq<(RowId, Seq<Value>)>, ts: Value, j: nat) -> Seq<Staged>
    decreases j
{
    if j == 0 { Seq::empty() } else {
        let e = out[j - 1];
        let before = expected(t, out, ts, (j - 1) as nat);
        let cur = t.data@[e.0.ix() as int];
        let rem = if stale(cur) { before } else { before.push(Staged::Remove(cur.subrange(0, t.n_keys as int))) };
        rem.push(Staged::Insert(restamp(e.1, t.sort_by, ts)))
    }
}

//@ impl core-relations/src/table/rebuild.rs impl SortedWritesTable
//@ lift core-relations/src/table/rebuild.rs rebuild_nonincremental else 0 as rebuild_nonincremental_serial
//@ header pub fn rebuild_nonincremental_serial(&self, rebuilder: &RebuilderStub, next_ts: Value, exec_state: &mut ExecutionState) -> (r: bool)
//@ rewrite R-FORSTEP 0
//@ rewrite R-ITERPAIRMUT 1
//@ rewrite R-MACRO insert_row
//@ rewrite R-CLOSANN 0 &[Value] &[Value]
//@ at sig
        requires self.shape_ok(),
        ensures
            // `changed` iff the rebuilder reported at least one row of the table
            r == (rb_out(rebuilder, self.data@, 0, self.data@.len()).len() > 0),
//@ at loop 0 spec
            invariant
                self.shape_ok(), max_row == self.data@.len(), __e0 == max_row, __i0 <= max_row + STEP_SIZE, (__i0 >= max_row ==> __i0 < max_row + STEP_SIZE),
                buf@ == rb_out(rebuilder, self.data@, 0, (if __i0 < max_row { __i0 } else { max_row }) as nat),
                forall|i: int| 0 <= i < buf@.len() ==> (#[trigger] buf@[i]).0.ix() < self.data@.len() && buf@[i].1.len() == self.n_columns,
            decreases max_row + STEP_SIZE - __i0
//@ at before-loop 0
            proof { ax_rb_empty(rebuilder, self.data@, 0); }
//@ at loop 0 body-end
                proof { ax_rb_split(rebuilder, self.data@, 0, start as nat, (if start + STEP_SIZE < max_row { (start + STEP_SIZE) as nat } else { max_row as nat })); }
//@ at loop 1 spec
                invariant
                    self.shape_ok(), __j1 <= __n1, __n1 == __v1@.len(), __n1 == out0.len(),
                    forall|i: int| __j1 <= i < __n1 ==> (#[trigger] __v1@[i]).0 == out0[i].0 && __v1@[i].1@ == out0[i].1,
                    forall|i: int| 0 <= i < out0.len() ==> (#[trigger] out0[i]).0.ix() < self.data@.len() && out0[i].1.len() == self.n_columns,
                    // C01/C04/C03: exactly the removals and re-stamped insertions the report calls for have been staged
                    write_buf.log() == expected(*self, out0, next_ts, __j1 as nat),
                    changed == (__j1 > 0),
                decreases __n1 - __j1
//@ at closure 0 spec
                        requires x@.len() >= self.n_keys
                        ensures r@ == x@.subrange(0, self.n_keys as int)
//@ at before-loop 1
                let ghost out0 = buf@;
//@ at after-loop 1
                proof { assert(write_buf.log() == expected(*self, out0, next_ts, out0.len())); }
//@ end-fn
//@ lift core-relations/src/table/rebuild.rs rebuild_nonincremental closure 0 as rebuild_nonincremental_chunk
//@ header pub fn rebuild_nonincremental_chunk(&self, rebuilder: &RebuilderStub, next_ts: Value, exec_state: &ExecutionState, max_row: usize, start: &usize) -> (r: bool)
//@ rewrite R-ITERPAIRMUT 0
//@ rewrite R-MACRO insert_row
//@ rewrite R-CLOSANN 0 &[Value] &[Value]
//@ at sig
        requires self.shape_ok(), max_row == self.data@.len(), *start < max_row,
        ensures
            // one chunk of the parallel branch: `changed` iff the rebuilder reported a row of this chunk
            r == (rb_out(rebuilder, self.data@, *start as nat, (if *start + STEP_SIZE < max_row { (*start + STEP_SIZE) as nat } else { max_row as nat })).len() > 0),
//@ at loop 0 spec
                invariant
                    self.shape_ok(), __j0 <= __n0, __n0 == __v0@.len(), __n0 == out0.len(),
                    forall|i: int| __j0 <= i < __n0 ==> (#[trigger] __v0@[i]).0 == out0[i].0 && __v0@[i].1@ == out0[i].1,
                    forall|i: int| 0 <= i < out0.len() ==> (#[trigger] out0[i]).0.ix() < self.data@.len() && out0[i].1.len() == self.n_columns,
                    // exactly the removals and re-stamped insertions this chunk's report calls for have been staged
                    mutation_buf.log() == expected(*self, out0, next_ts, __j0 as nat),
                    changed == (__j0 > 0),
                decreases __n0 - __j0
//@ at closure 0 spec
                        requires x@.len() >= self.n_keys
                        ensures r@ == x@.subrange(0, self.n_keys as int)
//@ at before-loop 0
                let ghost out0 = buf@;
                proof { ax_rb_empty(rebuilder, self.data@, 0); }
//@ at after-loop 0
                proof { assert(mutation_buf.log() == expected(*self, out0, next_ts, out0.len())); }
//@ end-fn
//@ end-impl

// ---------------- rebuild_incremental, serial branch: the staging half (same loop, third copy) -------------------
//@ impl core-relations/src/table/rebuild.rs impl SortedWritesTable
//@ lift core-relations/src/table/rebuild.rs rebuild_incremental afterloop 1 as rebuild_incremental_stage
//@ header pub fn rebuild_incremental_stage(&self, mut scratch: TaggedRowBuffer, changed: bool, next_ts: Value) -> (r: bool)
//@ rewrite R-ITERPAIRMUT 0
//@ rewrite R-MACRO insert_row
//@ rewrite R-CLOSANN 0 &[Value] &[Value]
//@ at sig
        requires self.shape_ok(),
            forall|i: int| 0 <= i < scratch@.len() ==> (#[trigger] scratch@[i]).0.ix() < self.data@.len() && scratch@[i].1.len() == self.n_columns,
        ensures r == changed,
//@ at loop 0 spec
                invariant
                    self.shape_ok(), __j0 <= __n0, __n0 == __v0@.len(), __n0 == out0.len(),
                    forall|i: int| __j0 <= i < __n0 ==> (#[trigger] __v0@[i]).0 == out0[i].0 && __v0@[i].1@ == out0[i].1,
                    forall|i: int| 0 <= i < out0.len() ==> (#[trigger] out0[i]).0.ix() < self.data@.len() && out0[i].1.len() == self.n_columns,
                    // exactly the removals and re-stamped insertions the scanned subsets call for have been staged
                    write_buf.log() == expected(*self, out0, next_ts, __j0 as nat),
                decreases __n0 - __j0
//@ at closure 0 spec
                        requires x@.len() >= self.n_keys
                        ensures r@ == x@.subrange(0, self.n_keys as int)
//@ at before-loop 0
                let ghost out0 = scratch@;
//@ at after-loop 0
                proof { assert(write_buf.log() == expected(*self, out0, next_ts, out0.len())); }
//@ end-fn
//@ end-impl

//@ impl core-relations/src/table/rebuild.rs impl SortedWritesTable
//@ lift core-relations/src/table/rebuild.rs rebuild_incremental closure 2 as rebuild_incremental_one_id
//@ header pub fn rebuild_incremental_one_id(&self, rebuilder: &RebuilderStub, wrapped: &WrappedRef, next_ts: Value, exec_state: &ExecutionState, id: &Value) -> (r: bool)
//@ rewrite R-ITERPAIRMUT 0
//@ rewrite R-MACRO insert_row
//@ rewrite R-CLOSANN 0 &[Value] &[Value]
//@ at sig
        requires self.shape_ok(), wrapped.rows() == self.data@,
//@ at loop 0 spec
                        invariant
                            self.shape_ok(), __j0 <= __n0, __n0 == __v0@.len(), __n0 == out0.len(),
                            forall|i: int| __j0 <= i < __n0 ==> (#[trigger] __v0@[i]).0 == out0[i].0 && __v0@[i].1@ == out0[i].1,
                            forall|i: int| 0 <= i < out0.len() ==> (#[trigger] out0[i]).0.ix() < self.data@.len() && out0[i].1.len() == self.n_columns,
                            // one dirty id of the parallel incremental rebuild: exactly what its subset's scan calls for is staged
                            mutation_buf.log() == expected(*self, out0, next_ts, __j0 as nat),
                            changed == (__j0 > 0),
                        decreases __n0 - __j0
//@ at closure 0 spec
                                requires x@.len() >= self.n_keys
                                ensures r@ == x@.subrange(0, self.n_keys as int)
//@ at before-loop 0
                    let ghost out0 = scanned@;
//@ at after-loop 0
                    proof { assert(mutation_buf.log() == expected(*self, out0, next_ts, out0.len())); }
//@ end-fn
//@ end-impl

// ---------------- refresh_rows_for_values: the staging half (C14 / C03) ------------------------------------------
/// what the refresh must stage for the candidates ids[0..j): every live candidate row is removed and re-inserted
/// unchanged except for its sort column, which becomes next_ts (so seminaive treats it as a fresh parent-row delta)
pub open spec fn expected_refresh(t: SortedWritesTable, ids: Seq<RowId>, ts: Value, j: nat) -> Seq<Staged>
    decreases j
{
    if j == 0 { Seq::empty() } else {
        let before = expected_refresh(t, ids, ts, (j - 1) as nat);
        let cur = t.data@[ids[j - 1].ix() as int];
        if stale(cur) { before } else {
            before.push(Staged::Remove(cur.subrange(0, t.n_keys as int))).push(Staged::Insert(restamp(cur, t.sort_by, ts)))
        }
    }
}
pub open spec fn any_live(t: SortedWritesTable, ids: Seq<RowId>, j: nat) -> bool
    decreases j
{
    if j == 0 { false } else { any_live(t, ids, (j - 1) as nat) || !stale(t.data@[ids[j - 1].ix() as int]) }
}

//@ impl core-relations/src/table/rebuild.rs impl SortedWritesTable
// candidate_rows is a HashSet<RowId> in the real function: the header passes its elements in iteration order
//@ lift core-relations/src/table/rebuild.rs refresh_rows_for_values tail 2 as refresh_stage_candidates
//@ header pub fn refresh_stage_candidates(&self, candidate_rows: Vec<RowId>, next_ts: Value) -> (r: bool)
//@ rewrite R-FORVEC 0
//@ at sig
        requires self.shape_ok(), forall|i: int| 0 <= i < candidate_rows@.len() ==> (#[trigger] candidate_rows@[i]).ix() < self.data@.len(),
        ensures r == any_live(*self, candidate_rows@, candidate_rows@.len()),
//@ at loop 0 spec
            invariant
                self.shape_ok(), __v0@ == ids, __j0 <= ids.len(),
                forall|i: int| 0 <= i < ids.len() ==> (#[trigger] ids[i]).ix() < self.data@.len(),
                // C14/C03: exactly the live candidate rows are removed and re-inserted with the sort column set to next_ts
                mutation_buf.log() == expected_refresh(*self, ids, next_ts, __j0 as nat),
                changed == any_live(*self, ids, __j0 as nat),
            decreases ids.len() - __j0
//@ at loop 0 body-end
            proof { assert(refreshed_row@ =~= restamp(self.data@[row_id.ix() as int], self.sort_by, next_ts)); }
//@ at before-loop 0
        let ghost ids = candidate_rows@;
//@ at after-loop 0
        proof { assert(mutation_buf.log() == expected_refresh(*self, ids, next_ts, ids.len())); }
//@ end-fn
//@ end-impl

} // verus!
fn main() {}
