#![feature(allocator_api)]
// U-IDXCACHE: core-relations/src/free_join/mod.rs  Database::clear_table -- the cache-invalidation step of C16:
// after a table is cleared (its version changes), every cached column/tuple index of that table is back in the
// "to be updated" state, so the next index-backed read refreshes it (ResettableOnceLock::get_or_update runs the
// refresh only after a reset()).
use vstd::prelude::*;
use std::sync::Arc;
use vstd::std_specs::cmp::*;
verus! {
//@ include prelude/numeric_id.vs
//@ include prelude/std_extra.vs
broadcast use {nid::ax_id_eq, nid::ax_id_cmp, nid::ax_id_obeys_eq, nid::ax_id_obeys_cmp, nid::ax_id_obeys_partial_cmp, nid::ax_id_partial_cmp};
//@ idtype TableId ColumnId

// ---- trusted environment ---------------------------------------------------------------------------------------
/// A-lock: concurrency::ResettableOnceLock<T>: `reset` puts it in the "to be updated" state (needs &mut)
#[verifier::external_body]
#[verifier::reject_recursive_types(T)]
pub struct ResettableOnceLock<T> { _p: core::marker::PhantomData<T> }
impl<T> ResettableOnceLock<T> {
    pub uninterp spec fn is_reset(&self) -> bool;
    #[verifier::external_body]
    pub fn reset(&mut self) ensures final(self).is_reset() { unimplemented!() }
}
#[verifier::external_body]
pub struct TupleIdx { _p: core::marker::PhantomData<u8> }
#[verifier::external_body]
pub struct ColumnIdx { _p: core::marker::PhantomData<u8> }
pub type HashIndex = Arc<ResettableOnceLock<TupleIdx>>;
pub type HashColumnIndex = Arc<ResettableOnceLock<ColumnIdx>>;
#[verifier::external_body]
#[verifier::reject_recursive_types(A)]
pub struct SmallVec<A> { _p: core::marker::PhantomData<A> }

/// A-arc (R-RENAME Arc VcArc): Arc::get_mut. ASSUMED to succeed: while the database is mutably borrowed no query plan
/// holds a clone of a cached index (Database::merge_all relies on the same fact: it unwraps Arc::get_mut)
pub struct VcArc;
impl VcArc {
    #[verifier::external_body]
    pub fn get_mut<T>(this: &mut Arc<T>) -> (r: Option<&mut T>)
        ensures match r { Some(x) => *x == **old(this) && **final(this) == *final(x), None => false }
    { unimplemented!() }
}

/// A-cat: IndexCatalog<K, I> as the sequence of its (key, index) entries; `update(f)` applies f to every entry in
/// order (hash_index/mod.rs:852: `for (k, i) in self.data.as_mut_ref() { f(k, i) }`), see R-UPDATE
#[verifier::external_body]
#[verifier::reject_recursive_types(K)]
#[verifier::reject_recursive_types(I)]
pub struct IndexCatalog<K, I> { _p: core::marker::PhantomData<(K, I)> }
impl<K, I> IndexCatalog<K, I> {
    pub uninterp spec fn view(&self) -> Seq<(K, I)>;
    #[verifier::external_body]
    pub fn vc_entries_mut(&mut self) -> (r: &mut Vec<(K, I)>)
        ensures r@ == old(self)@, final(self)@ == final(r)@
    { unimplemented!() }
}

/// A-db: a table behind `WrappedTable` (dyn Table): number of live rows, version, clear. The contract of clear() is the
/// one PROVED for SortedWritesTable::clear (unit insert) and DisplacedTable::clear (unit disp).
#[verifier::external_body]
pub struct WrappedTable { _p: core::marker::PhantomData<u8> }
impl WrappedTable {
    pub uninterp spec fn rows(&self) -> nat;
    pub uninterp spec fn generation(&self) -> nat;
    #[verifier::external_body]
    pub fn len(&self) -> (r: usize) ensures r == self.rows() { unimplemented!() }
    #[verifier::external_body]
    pub fn clear(&mut self)
        ensures final(self).rows() == 0,
            old(self).rows() > 0 ==> final(self).generation() == old(self).generation() + 1,
            old(self).rows() == 0 ==> final(self).generation() == old(self).generation(),
    { unimplemented!() }
}

/// A-map: DenseIdMap<K, V> as a finite map
#[verifier::external_body]
#[verifier::reject_recursive_types(K)]
#[verifier::reject_recursive_types(V)]
pub struct DenseIdMap<K, V> { _p: core::marker::PhantomData<(K, V)> }
impl<K, V> DenseIdMap<K, V> {
    pub uninterp spec fn view(&self) -> Map<K, V>;
    #[verifier::external_body]
    pub fn get_mut(&mut self, key: K) -> (r: Option<&mut V>)
        ensures match r {
            Some(v) => old(self)@.contains_key(key) && *v == old(self)@[key] && final(self)@ == old(self)@.insert(key, *final(v)),
            None => !old(self)@.contains_key(key) && final(self)@ == old(self)@,
        }
    { unimplemented!() }
}

//@ item core-relations/src/free_join/mod.rs struct TableInfo only table indexes column_indexes
//@ item core-relations/src/free_join/mod.rs struct Database only tables total_size_estimate

/// every cached index of the table is in the "to be updated" state
pub open spec fn all_reset(info: TableInfo) -> bool {
    &&& forall|i: int| 0 <= i < info.indexes@.len() ==> (#[trigger] info.indexes@[i]).1.is_reset()
    &&& forall|i: int| 0 <= i < info.column_indexes@.len() ==> (#[trigger] info.column_indexes@[i]).1.is_reset()
}
pub open spec fn same_keys<K, I>(a: Seq<(K, I)>, b: Seq<(K, I)>) -> bool {
    a.len() == b.len() && forall|i: int| 0 <= i < a.len() ==> (#[trigger] a[i]).0 == b[i].0
}

//@ impl core-relations/src/free_join/mod.rs impl Database
//@ fn clear_table
//@ # the directives marked `?` are proof plumbing for the two update loops; if the function's shape changes they are
//@ # dropped and the plain contract is checked (fallback mode, DESIGN.md section 12.1)
//@ rewrite? R-RENAME Arc VcArc
//@ rewrite? R-UPDATE 0 1
//@ at sig
        requires old(self).tables@.contains_key(table),
        ensures
            final(self).tables@.dom() == old(self).tables@.dom(),
            // the table is empty, its version changed if it had rows, and EVERY cached index of it will refresh on next use
            final(self).tables@[table].table.rows() == 0,
            old(self).tables@[table].table.rows() > 0 ==> final(self).tables@[table].table.generation() == old(self).tables@[table].table.generation() + 1,
            all_reset(final(self).tables@[table]),
            same_keys(old(self).tables@[table].indexes@, final(self).tables@[table].indexes@),
            same_keys(old(self).tables@[table].column_indexes@, final(self).tables@[table].column_indexes@),
            // no other table is touched
            forall|t: TableId| t != table && old(self).tables@.contains_key(t) ==> #[trigger] final(self).tables@[t] == old(self).tables@[t],
//@ at? after-semi 2
        let ghost ci0 = info.column_indexes@;
        let ghost ix0 = info.indexes@;
//@ at? closure 0 spec
            invariant
                __j0 <= __n0, __n0 == __u0@.len(), same_keys(ci0, __u0@),
                forall|i: int| 0 <= i < __j0 ==> (#[trigger] __u0@[i]).1.is_reset(),
            decreases __n0 - __j0
//@ at? closure 1 spec
            invariant
                __j1 <= __n1, __n1 == __u1@.len(), same_keys(ix0, __u1@),
                forall|i: int| 0 <= i < __j1 ==> (#[trigger] __u1@[i]).1.is_reset(),
            decreases __n1 - __j1
//@ end-fn
//@ end-impl

} // verus!
fn main() {}
