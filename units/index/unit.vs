#![feature(allocator_api)]
// U-IDX: version-driven refresh decisions (C16): core-relations/src/common.rs SubsetTracker::recent_updates,
// core-relations/src/hash_index/mod.rs Index::{needs_refresh, refresh} (control only; the index contents are
// hashbrown code and stay behind the IndexBase contract)
use vstd::prelude::*;
use vstd::std_specs::cmp::*;
verus! {
//@ include prelude/numeric_id.vs
broadcast use {nid::ax_id_eq, nid::ax_id_cmp, nid::ax_id_obeys_eq, nid::ax_id_obeys_cmp, nid::ax_id_obeys_partial_cmp, nid::ax_id_partial_cmp, tvx::ax_tv_eq, tvx::ax_tv_obeys};
//@ idtype TableId ColumnId
//@ idtype64 Generation Offset

//@ item core-relations/src/table_spec.rs struct TableVersion derive PartialEq,Eq,Clone,Copy

pub mod tvx {
    use super::*;
    use vstd::prelude::*;
    use vstd::std_specs::cmp::*;
    // A-std: the derived PartialEq of TableVersion is structural
    pub broadcast axiom fn ax_tv_obeys()
        ensures #[trigger] TableVersion::obeys_eq_spec();
    pub broadcast axiom fn ax_tv_eq(a: TableVersion, b: TableVersion)
        ensures (#[trigger] a.eq_spec(&b)) <==> (a.major.rep == b.major.rep && a.minor.rep == b.minor.rep);
}

// ---- trusted environment ---------------------------------------------------------------------------------
/// a set of row ids handed out by a table
#[verifier::external_body]
pub struct Subset { _p: core::marker::PhantomData<u8> }
#[verifier::external_body]
pub struct SubsetRef<'a> { _p: core::marker::PhantomData<&'a u8> }
impl Subset {
    pub uninterp spec fn rows(&self) -> Set<int>;
    #[verifier::external_body]
    pub fn size(&self) -> usize { unimplemented!() }
    #[verifier::external_body]
    pub fn as_ref(&self) -> (r: SubsetRef<'_>) ensures r.rows() == self.rows() { unimplemented!() }
}
impl SubsetRef<'_> {
    pub uninterp spec fn rows(&self) -> Set<int>;
}

/// A-db: what a table promises about its version: rows(all) are the live rows; within one major generation
/// rows(updates_since(m)) are the rows added since minor version m
#[verifier::external_body]
pub struct WrappedTable { _p: core::marker::PhantomData<u8> }
#[verifier::external_body]
#[derive(Clone, Copy)]
pub struct WrappedTableRef<'a> { _p: core::marker::PhantomData<&'a u8> }
pub uninterp spec fn t_version(t: int) -> TableVersion;
pub uninterp spec fn t_all(t: int) -> Set<int>;
pub uninterp spec fn t_since(t: int, m: Offset) -> Set<int>;
impl WrappedTable {
    pub uninterp spec fn id(&self) -> int;
    #[verifier::external_body]
    pub fn version(&self) -> (r: TableVersion) ensures r == t_version(self.id()) { unimplemented!() }
    #[verifier::external_body]
    pub fn all(&self) -> (r: Subset) ensures r.rows() == t_all(self.id()) { unimplemented!() }
    #[verifier::external_body]
    pub fn updates_since(&self, offset: Offset) -> (r: Subset) ensures r.rows() == t_since(self.id(), offset) { unimplemented!() }
}
impl WrappedTableRef<'_> {
    pub uninterp spec fn id(&self) -> int;
    #[verifier::external_body]
    pub fn version(&self) -> (r: TableVersion) ensures r == t_version(self.id()) { unimplemented!() }
    #[verifier::external_body]
    pub fn all(&self) -> (r: Subset) ensures r.rows() == t_all(self.id()) { unimplemented!() }
    #[verifier::external_body]
    pub fn updates_since(&self, offset: Offset) -> (r: Subset) ensures r.rows() == t_since(self.id(), offset) { unimplemented!() }
}

/// A-hash: DenseIdMap as a finite map
#[verifier::external_body]
#[verifier::reject_recursive_types(K)]
#[verifier::reject_recursive_types(V)]
pub struct DenseIdMap<K, V> { _p: core::marker::PhantomData<(K, V)> }
impl<K, V> DenseIdMap<K, V> {
    pub uninterp spec fn view(&self) -> Map<K, V>;
    #[verifier::external_body]
    pub fn get(&self, k: K) -> (r: Option<&V>)
        ensures match r { Some(v) => self@.contains_key(k) && *v == self@[k], None => !self@.contains_key(k) }
    { unimplemented!() }
    #[verifier::external_body]
    pub fn insert(&mut self, k: K, v: V) -> (r: Option<V>)
        ensures final(self)@ == old(self)@.insert(k, v)
    { unimplemented!() }
}

/// A-hash: the hash index behind `Index` (SubsetTable / ColumnIndex / TupleIndex): the set of table rows it has absorbed
pub trait IndexBase {
    spec fn indexed(&self) -> Set<int>;
    fn clear(&mut self)
        ensures final(self).indexed() == Set::<int>::empty();
    fn merge_parallel(&mut self, key: &Vec<ColumnId>, table: WrappedTableRef<'_>, subset: SubsetRef<'_>)
        ensures final(self).indexed() == old(self).indexed().union(subset.rows());
    fn rebuild_full(&mut self, key: &Vec<ColumnId>, table: WrappedTableRef<'_>, subset: SubsetRef<'_>)
        requires old(self).indexed() == Set::<int>::empty(),
        ensures final(self).indexed() == subset.rows();
    fn merge_rows(&mut self, buf: &TaggedRowBuffer)
        ensures final(self).indexed() == old(self).indexed().union(buf.rows());
}

/// A-db: a buffer of (row id, projected row) pairs: the set of row ids it holds
#[verifier::external_body]
pub struct TaggedRowBuffer { _p: core::marker::PhantomData<u8> }
impl TaggedRowBuffer {
    pub uninterp spec fn rows(&self) -> Set<int>;
    #[verifier::external_body]
    pub fn new(n: usize) -> (r: Self) ensures r.rows() == Set::<int>::empty() { unimplemented!() }
    #[verifier::external_body]
    pub fn clear(&mut self) ensures final(self).rows() == Set::<int>::empty() { unimplemented!() }
}
#[verifier::external_body]
pub struct Constraint { _p: core::marker::PhantomData<u8> }
/// the rows of a subset at scan positions [from, to) (a scan visits the subset in order, `n` rows per call)
pub uninterp spec fn sp(s: Set<int>, from: nat, to: nat) -> Set<int>;
pub axiom fn ax_sp_empty(s: Set<int>, a: nat) ensures sp(s, a, a) == Set::<int>::empty();
pub axiom fn ax_sp_split(s: Set<int>)
    ensures forall|a: nat, b: nat, c: nat| #![trigger sp(s, a, b), sp(s, b, c)] a <= b <= c ==> sp(s, a, b).union(sp(s, b, c)) == sp(s, a, c);
impl WrappedTableRef<'_> {
    // A-db: scan_project(subset, cols, start, n, no constraints, out): appends the (live) rows of the subset at scan
    // positions [start, start + n) and returns where to continue, or None when the subset is exhausted
    #[verifier::external_body]
    pub fn scan_project(&self, subset: SubsetRef<'_>, cols: &Vec<ColumnId>, start: Offset, n: usize, cs: &[Constraint], out: &mut TaggedRowBuffer) -> (r: Option<Offset>)
        ensures
            final(out).rows() == old(out).rows().union(sp(subset.rows(), start.ix(), (start.ix() + n) as nat)),
            match r { Some(next) => next.ix() == start.ix() + n, None => sp(subset.rows(), 0, (start.ix() + n) as nat) == subset.rows() },
    { unimplemented!() }
}

#[verifier::external_body]
pub fn parallelize_index_construction(n: usize) -> bool { unimplemented!() }

//@ item core-relations/src/common.rs struct SubsetTracker
//@ item core-relations/src/hash_index/mod.rs struct Index

//@ impl core-relations/src/common.rs impl SubsetTracker
//@ fn recent_updates
//@ ret r
//@ at sig
        ensures
            // only what was added since the version seen last, if that is still meaningful; otherwise everything
            r.rows() == (if old(self).last_rebuilt_at@.contains_key(table_id)
                    && old(self).last_rebuilt_at@[table_id].major.ix() == t_version(table.id()).major.ix()
                { t_since(table.id(), old(self).last_rebuilt_at@[table_id].minor) } else { t_all(table.id()) }),
            // and the current version is what the next call compares against
            final(self).last_rebuilt_at@ == old(self).last_rebuilt_at@.insert(table_id, t_version(table.id())),
//@ end-fn
//@ end-impl

//@ impl core-relations/src/hash_index/mod.rs impl<TI: IndexBase> Index<TI>
//@ fn refresh_serial
//@ at attr
    #[verifier::exec_allows_no_decreases_clause]
//@ at sig
        ensures
            // the batch loop absorbs exactly `subset`, the last (partial) batch included
            final(self).table.indexed() == old(self).table.indexed().union(subset.rows()),
            final(self).key == old(self).key,
            final(self).updated_to == old(self).updated_to,
//@ at before-loop 0
        proof { ax_sp_empty(subset.rows(), 0); }
//@ at loop 0 spec
            invariant_except_break
                self.table.indexed() =~= old(self).table.indexed().union(sp(subset.rows(), 0, cur.ix())),
            invariant
                self.key == old(self).key, self.updated_to == old(self).updated_to,
            ensures
                self.table.indexed() =~= old(self).table.indexed().union(subset.rows()),
//@ at loop 0 body-start
            proof { ax_sp_split(subset.rows()); }
//@ end-fn
//@ fn needs_refresh
//@ ret r
//@ at sig
        ensures r == !(t_version(table.id()).major.ix() == self.updated_to.major.ix() && t_version(table.id()).minor.ix() == self.updated_to.minor.ix()),
//@ end-fn
//@ fn refresh
//@ at sig
        ensures
            final(self).key == old(self).key,
            // afterwards the index is at the table's version
            final(self).updated_to.major.ix() == t_version(table.id()).major.ix(),
            final(self).updated_to.minor.ix() == t_version(table.id()).minor.ix(),
            ({
                let cur = t_version(table.id());
                let up = old(self).updated_to;
                // no-op iff the versions agree; full rebuild iff the major generation changed; else only the delta
                &&& (cur.major.ix() == up.major.ix() && cur.minor.ix() == up.minor.ix() ==> final(self).table.indexed() == old(self).table.indexed())
                &&& (cur.major.ix() != up.major.ix() ==> final(self).table.indexed() =~= t_all(table.id()))
                &&& (cur.major.ix() == up.major.ix() && cur.minor.ix() != up.minor.ix() ==>
                        final(self).table.indexed() == old(self).table.indexed().union(t_since(table.id(), up.minor)))
            }),
//@ end-fn
//@ end-impl

} // verus!
fn main() {}
