#![feature(allocator_api)]
// U-MIN + U-MERGE: egglog-bridge/src/lib.rs  ResolvedMergeFn::run, the closure of MergeFn::to_callback,
// combine_subsumed, SUBSUMED/NOT_SUBSUMED, SchemaMath::{num_keys,table_columns,ret_val_col,ts_col,subsume_col},
// UnionAction::union, the container merge closure of register_container_ty
use vstd::prelude::*;
use std::sync::Arc;
use vstd::std_specs::cmp::*;
verus! {
//@ include prelude/numeric_id.vs
//@ include prelude/std_extra.vs
//@ idtype Value TableId CounterId ExternalFunctionId FunctionId
//@ include prelude/bridge_exec.vs
broadcast use {nid::ax_id_eq, nid::ax_id_cmp, nid::ax_id_obeys_eq, nid::ax_id_obeys_cmp, nid::ax_id_obeys_partial_cmp, nid::ax_id_partial_cmp};
//@ include units/uf/spec.vs

// ---- trusted environment specific to this unit --------------------------------------------------
/// A-exec: what `TableAction::lookup_or_insert` returns / stages, as a function of the action and the key
pub uninterp spec fn lookup_fn(t: TableAction, key: Seq<Value>) -> Option<Value>;
pub uninterp spec fn lookup_effect(t: TableAction, key: Seq<Value>) -> Seq<StagedRow>;

#[verifier::external_body]
pub struct TableAction { _p: core::marker::PhantomData<u8> }
impl TableAction {
    #[verifier::external_body]
    pub fn lookup_or_insert(&self, state: &mut ExecutionState, key: &[Value]) -> (r: Option<Value>)
        ensures
            r == lookup_fn(*self, key@),
            final(state).staged() == old(state).staged() + lookup_effect(*self, key@),
            final(state).calls() == old(state).calls(),
            forall|c: CounterId| final(state).counter(c) == old(state).counter(c),
    { unimplemented!() }
}

//@ item egglog-bridge/src/lib.rs enum ResolvedMergeFn
//@ item egglog-bridge/src/lib.rs struct SchemaMath
//@ item egglog-bridge/src/lib.rs struct RowVals
//@ item egglog-bridge/src/lib.rs struct UnionAction
//@ item egglog-bridge/src/lib.rs const SUBSUMED constcall
//@ item egglog-bridge/src/lib.rs const NOT_SUBSUMED constcall

impl SchemaMath {
    /// the row a table with this layout stores: [keys.., ret, ts, subsume?]
    pub open spec fn cols(&self) -> nat { (self.func_cols + 1 + if self.subsume { 1nat } else { 0nat }) as nat }
    pub open spec fn ok(&self) -> bool { self.func_cols >= 1 && self.func_cols <= usize::MAX - 2 }

    // ASSUMED (generic over `impl HasResizeWith<T>` with an `impl Trait` argument and a struct pattern in
    // parameter position: outside the Verus subset; bounded Kani stand-in in kani/schema_math.rs).
    // Specialised to the instance the merge callback uses (T = Value, row = Vec<Value>).
    #[verifier::external_body]
    pub fn write_table_row(&self, row: &mut Vec<Value>, vals: RowVals<Value>)
        requires self.ok(),
        ensures
            final(row)@.len() == self.cols(),
            (vals.subsume is None ==> !self.subsume),
            forall|i: int| 0 <= i < self.cols() ==> #[trigger] final(row)@[i] == (
                if i == self.func_cols { vals.timestamp }
                else if i == self.func_cols - 1 && vals.ret_val is Some { vals.ret_val->Some_0 }
                else if i == self.func_cols + 1 && vals.subsume is Some { vals.subsume->Some_0 }
                else if i < old(row)@.len() { old(row)@[i] }
                else { vals.timestamp }),
    { unimplemented!() }
}

// ---------------- specification of merge expressions (C05) ---------------------------------------
/// value of the resolved merge expression `m` for stored value `cur` and incoming value `new`
pub open spec fn mval(m: ResolvedMergeFn, cur: Value, new: Value) -> Value
    decreases m, 0int
{
    match m {
        ResolvedMergeFn::Const(v) => v,
        ResolvedMergeFn::Old => cur,
        ResolvedMergeFn::New => new,
        // :no-merge keeps the stored value (and reports a panic, see mcalls)
        ResolvedMergeFn::AssertEq { panic } => cur,
        // constructors: the union-find's choice, the minimum id
        ResolvedMergeFn::UnionId { uf_table } => if cur != new { id_min(cur, new) } else { cur },
        ResolvedMergeFn::Primitive { prim, args, panic } =>
            match ext_fn(prim, mvals(args, cur, new, args@.len())) { Some(r) => r, None => cur },
        ResolvedMergeFn::Function { func, args, panic } =>
            if cur == new { cur } else {
                match lookup_fn(func, mvals(args, cur, new, args@.len())) { Some(r) => r, None => cur }
            },
    }
}

/// values of the first n argument expressions
pub open spec fn mvals(args: Vec<ResolvedMergeFn>, cur: Value, new: Value, n: nat) -> Seq<Value>
    decreases args, n
{
    if n == 0 || n > args@.len() { Seq::empty() }
    else { mvals(args, cur, new, (n - 1) as nat).push(mval(args@[n - 1], cur, new)) }
}

/// rows staged while evaluating `m` (unions of ids; inserts done by constructor lookups)
pub open spec fn mstaged(m: ResolvedMergeFn, cur: Value, new: Value, ts: Value) -> Seq<StagedRow>
    decreases m, 0int
{
    match m {
        ResolvedMergeFn::UnionId { uf_table } =>
            if cur != new { seq![StagedRow { table: uf_table, row: seq![cur, new, ts] }] } else { Seq::empty() },
        ResolvedMergeFn::Primitive { prim, args, panic } => mstaged_args(args, cur, new, ts, args@.len()),
        ResolvedMergeFn::Function { func, args, panic } =>
            if cur == new { Seq::empty() } else {
                mstaged_args(args, cur, new, ts, args@.len()) + lookup_effect(func, mvals(args, cur, new, args@.len()))
            },
        _ => Seq::empty(),
    }
}

pub open spec fn mstaged_args(args: Vec<ResolvedMergeFn>, cur: Value, new: Value, ts: Value, n: nat) -> Seq<StagedRow>
    decreases args, n
{
    if n == 0 || n > args@.len() { Seq::empty() }
    else { mstaged_args(args, cur, new, ts, (n - 1) as nat) + mstaged(args@[n - 1], cur, new, ts) }
}

/// external functions invoked while evaluating `m`, in order (primitives and panic functions)
pub open spec fn mcalls(m: ResolvedMergeFn, cur: Value, new: Value) -> Seq<ExtCall>
    decreases m, 0int
{
    match m {
        ResolvedMergeFn::AssertEq { panic } =>
            if cur != new { seq![ExtCall { func: panic, args: Seq::empty() }] } else { Seq::empty() },
        ResolvedMergeFn::Primitive { prim, args, panic } => {
            let vals = mvals(args, cur, new, args@.len());
            mcalls_args(args, cur, new, args@.len()) + seq![ExtCall { func: prim, args: norm_args(vals) }]
                + (if ext_fn(prim, vals) is None { seq![ExtCall { func: panic, args: Seq::empty() }] } else { Seq::empty() })
        },
        ResolvedMergeFn::Function { func, args, panic } =>
            if cur == new { Seq::empty() } else {
                mcalls_args(args, cur, new, args@.len())
                    + (if lookup_fn(func, mvals(args, cur, new, args@.len())) is None { seq![ExtCall { func: panic, args: Seq::empty() }] } else { Seq::empty() })
            },
        _ => Seq::empty(),
    }
}

pub open spec fn mcalls_args(args: Vec<ResolvedMergeFn>, cur: Value, new: Value, n: nat) -> Seq<ExtCall>
    decreases args, n
{
    if n == 0 || n > args@.len() { Seq::empty() }
    else { mcalls_args(args, cur, new, (n - 1) as nat) + mcalls(args@[n - 1], cur, new) }
}

/// the row the merge callback writes when something changed: incoming keys, merged value, incoming
/// timestamp, max of the subsume flags
pub open spec fn merged_row(sm: SchemaMath, m: ResolvedMergeFn, cur: Seq<Value>, new: Seq<Value>) -> Seq<Value> {
    Seq::new(sm.cols(), |i: int|
        if i == sm.func_cols - 1 { mval(m, cur[sm.func_cols - 1], new[sm.func_cols - 1]) }
        else if i == sm.func_cols { new[sm.func_cols as int] }
        else if sm.subsume && i == sm.func_cols + 1 { id_max(cur[sm.func_cols + 1], new[sm.func_cols + 1]) }
        else { new[i] })
}

pub open spec fn row_changes(sm: SchemaMath, m: ResolvedMergeFn, cur: Seq<Value>, new: Seq<Value>) -> bool {
    ||| mval(m, cur[sm.func_cols - 1], new[sm.func_cols - 1]) != cur[sm.func_cols - 1]
    ||| (sm.subsume && id_max(cur[sm.func_cols + 1], new[sm.func_cols + 1]) != cur[sm.func_cols + 1])
}

// ---------------- lemmas: consequences the properties state ----------------------------------------
/// "THIS MUST MATCH THE UNION-FIND IMPLEMENTATION": on canonical ids the id kept by the UnionId merge is
/// the representative UnionFind::union keeps (unit uf: union's contract is stated with union_result).
pub proof fn lemma_unionid_matches_union_find(p: Seq<Value>, uf_table: TableId, cur: Value, new: Value)
    requires wf(p), root(p, cur.ix()) == cur.ix(), root(p, new.ix()) == new.ix(), cur != new,
    ensures
        mval(ResolvedMergeFn::UnionId { uf_table }, cur, new).ix() == union_result(p, cur.ix(), new.ix()).0,
        mstaged(ResolvedMergeFn::UnionId { uf_table }, cur, new, cur) == seq![StagedRow { table: uf_table, row: seq![cur, new, cur] }],
{
}

/// C13: flag algebra on the REAL constants and the REAL combine_subsumed (an exec proof harness: it only
/// calls the functions under contract): a subsumed row stays subsumed through every collision, in either
/// order; two live rows stay live; SUBSUMED and NOT_SUBSUMED differ.
pub fn harness_subsume_flag_algebra(x: Value)
    requires x.ix() <= 1,
{
    let s = SUBSUMED;
    let n = NOT_SUBSUMED;
    let a = combine_subsumed(s, x);
    let b = combine_subsumed(x, s);
    let c = combine_subsumed(n, n);
    let d = combine_subsumed(n, x);
    assert(a == s);
    assert(b == s);
    assert(c == n);
    assert(d == x);
    assert(s != n);
    assert(s.ix() == 1 && n.ix() == 0);
}

/// C05: for the ACI merges the fold over writes is order independent (min of ids, max of flags)
pub proof fn lemma_min_max_aci(a: Value, b: Value, c: Value)
    ensures
        id_min(a, b).ix() == id_min(b, a).ix(),
        id_min(id_min(a, b), c).ix() == id_min(a, id_min(b, c)).ix(),
        id_min(a, a) == a,
        id_max(a, b).ix() == id_max(b, a).ix(),
        id_max(id_max(a, b), c).ix() == id_max(a, id_max(b, c)).ix(),
        id_max(a, a) == a,
{
}

//@ fn egglog-bridge/src/lib.rs combine_subsumed
//@ ret r
//@ at sig
    ensures r == id_max(v1, v2),
//@ end-fn

//@ impl egglog-bridge/src/lib.rs impl SchemaMath
//@ fn num_keys
//@ ret r
//@ at sig
        requires self.func_cols >= 1,
        ensures r == self.func_cols - 1,
//@ end-fn
//@ fn table_columns
//@ ret r
//@ at sig
        requires self.ok(),
        ensures r == self.cols(), r > self.func_cols,
//@ end-fn
//@ fn ret_val_col
//@ ret r
//@ at sig
        requires self.func_cols >= 1,
        ensures r == self.func_cols - 1,
//@ end-fn
//@ fn ts_col
//@ ret r
//@ at sig
        ensures r == self.func_cols,
//@ end-fn
//@ fn subsume_col
//@ ret r
//@ rewrite R-ASSERT
//@ at sig
        requires self.ok(),
        ensures r == self.func_cols + 1, self.subsume,
//@ end-fn
//@ end-impl

//@ impl egglog-bridge/src/lib.rs impl UnionAction
//@ fn union
//@ at sig
        requires self.timestamp_ok(state),
        ensures
            final(state).staged() == old(state).staged().push(StagedRow { table: self.table, row: seq![x, y, final(state).staged().last().row[2]] }),
            final(state).staged().last().row[2].ix() == old(state).counter(self.timestamp),
            final(state).calls() == old(state).calls(),
//@ end-fn
//@ end-impl
impl UnionAction {
    pub open spec fn timestamp_ok(&self, state: &ExecutionState) -> bool { true }
}

//@ impl egglog-bridge/src/lib.rs impl ResolvedMergeFn
//@ fn run
//@ ret r
//@ rewrite R-ASSERT
//@ rewrite R-MAPCOLLECT
//@ rewrite R-UNWRAPORELSE
//@ at sig
        ensures
            r == mval(*self, cur, new),
            final(state).staged() =~~= old(state).staged() + mstaged(*self, cur, new, ts),
            final(state).calls() =~~= old(state).calls() + mcalls(*self, cur, new),
            forall|c: CounterId| final(state).counter(c) == old(state).counter(c),
        decreases self,
//@ at mapcollect 0 spec
                    invariant
                        __k0 <= __src0.len(),
                        __v0@ == mvals(*args, cur, new, __k0 as nat),
                        state.staged() =~~= old(state).staged() + mstaged_args(*args, cur, new, ts, __k0 as nat),
                        state.calls() =~~= old(state).calls() + mcalls_args(*args, cur, new, __k0 as nat),
                        forall|c: CounterId| state.counter(c) == old(state).counter(c),
                    decreases __src0.len() - __k0,
//@ at mapcollect 0 body-start
                    proof { assert(decreases_to!(*self => args@[__k0 as int])); }
//@ at mapcollect 1 spec
                    invariant
                        __k1 <= __src1.len(),
                        __v1@ == mvals(*args, cur, new, __k1 as nat),
                        state.staged() =~~= old(state).staged() + mstaged_args(*args, cur, new, ts, __k1 as nat),
                        state.calls() =~~= old(state).calls() + mcalls_args(*args, cur, new, __k1 as nat),
                        forall|c: CounterId| state.counter(c) == old(state).counter(c),
                    decreases __src1.len() - __k1,
//@ at mapcollect 1 body-start
                    proof { assert(decreases_to!(*self => args@[__k1 as int])); }
//@ end-fn
//@ end-impl

//@ lift egglog-bridge/src/lib.rs to_callback closure 0 as merge_callback
//@ header pub fn merge_callback(schema_math: SchemaMath, resolved: &ResolvedMergeFn, state: &mut ExecutionState, cur: &[Value], new: &[Value], out: &mut Vec<Value>) -> (r: bool)
//@ rewrite R-THEN
//@ rewrite R-BOOLOP changed
//@ at sig
    requires
        schema_math.ok(),
        cur@.len() == schema_math.cols(),
        new@.len() == schema_math.cols(),
        // write_table_row addresses absolute columns of `out`: the scratch row starts empty
        old(out)@.len() == 0,
    ensures
        // C05/C13: the row changes exactly when the merged value or the merged subsume flag differs from what is stored
        r == row_changes(schema_math, *resolved, cur@, new@),
        // whole-row postcondition: keys of the incoming row, merged value, INCOMING timestamp, max of the flags
        r ==> final(out)@ == merged_row(schema_math, *resolved, cur@, new@),
        !r ==> final(out)@ == old(out)@,
        final(state).staged() =~~= old(state).staged() + mstaged(*resolved, cur@[schema_math.func_cols - 1], new@[schema_math.func_cols - 1], new@[schema_math.func_cols as int]),
        final(state).calls() =~~= old(state).calls() + mcalls(*resolved, cur@[schema_math.func_cols - 1], new@[schema_math.func_cols - 1]),
//@ at tail
            proof {
                if changed { assert(out@ =~= merged_row(schema_math, *resolved, cur@, new@)); }
            }
//@ end-fn

//@ lift egglog-bridge/src/lib.rs register_container_ty closure 0 as container_merge
//@ header pub fn container_merge(uf_table: TableId, ts_counter: CounterId, state: &mut ExecutionState, old: Value, new: Value) -> (r: Value)
//@ rewrite R-RENAME old old_v
//@ at sig
    ensures
        // C14/C17: two containers with a common id are merged like the union-find merges ids: keep the minimum,
        // stage exactly the union [old, new, now] on the union-find table, and nothing when they are equal
        r == mval(ResolvedMergeFn::UnionId { uf_table }, old_v, new),
        old_v != new ==> final(state).staged() == old(state).staged().push(StagedRow { table: uf_table, row: seq![old_v, new, final(state).staged().last().row[2]] })
            && final(state).staged().last().row[2].ix() == old(state).counter(ts_counter),
        old_v == new ==> final(state).staged() == old(state).staged(),
        final(state).calls() == old(state).calls(),
//@ end-fn

} // verus!
fn main() {}
