#![feature(allocator_api)]
// U-SCHED: src/lib.rs EGraph::{run_schedule, run_rules}; egglog-reports/src/lib.rs RunReport::{default, union}
use vstd::prelude::*;
use std::sync::Arc;
verus! {
//@ include prelude/std_extra.vs

//@ item src/ast/mod.rs enum GenericSchedule
//@ item src/ast/mod.rs struct GenericRunConfig
//@ item src/ast/mod.rs type ResolvedSchedule
//@ item src/ast/mod.rs type ResolvedRunConfig
//@ item egglog-reports/src/lib.rs struct RunReport

//@ include prelude/egglog_front.vs
broadcast use stdx::ax_iter_seq_vec;

// ---------------- specification, written from the property statement (C10) ----------------
pub open spec fn f_default() -> Flags { Flags { updated: false, can_stop: true, iters: 0 } }

pub open spec fn f_union(a: Flags, b: Flags) -> Flags {
    Flags { updated: a.updated || b.updated, can_stop: a.can_stop && b.can_stop, iters: a.iters + b.iters }
}

/// reports combine left to right: updated = OR, can_stop = AND, iterations concatenated
pub open spec fn f_fold(fs: Seq<Flags>) -> Flags
    decreases fs.len()
{
    if fs.len() == 0 { f_default() } else { f_union(f_fold(fs.drop_last()), fs.last()) }
}

/// ss[0] -> ss[1] -> ... is a chain of executions of the schedules given by `at`
pub open spec fn chain_ok(ss: Seq<St>, fs: Seq<Flags>) -> bool {
    ss.len() == fs.len() + 1
}

/// trigger-only marker for the witness sequences (the recursive predicates carry a fuel argument in
/// the SMT encoding and cannot serve as `exists` triggers)
pub open spec fn wit(ss: Seq<St>, fs: Seq<Flags>) -> bool { true }

pub open spec fn run_ok(s: ResolvedSchedule, a: St, b: St, f: Flags) -> bool
    decreases s, 0int
{
    match s {
        // (run ruleset :until facts): if the facts already hold nothing runs and the report is the
        // default one; otherwise exactly one iteration of the ruleset runs.
        GenericSchedule::Run(_, c) => {
            if c.until is Some && holds(a, c.until->Some_0@) {
                b == a && f == f_default()
            } else {
                b == step_state(a, c.ruleset@)
                && f == (Flags { updated: step_updated(a, c.ruleset@), can_stop: !step_updated(a, c.ruleset@), iters: 1 })
            }
        },
        // (seq s1 .. sn): left to right, every one of them
        GenericSchedule::Sequence(_, v) => {
            exists|ss: Seq<St>, fs: Seq<Flags>| #![trigger wit(ss, fs)] wit(ss, fs) && seq_w(v, a, b, f, ss, fs)
        },
        // (repeat n s): at most n times, stopping after the first execution that reports can_stop
        GenericSchedule::Repeat(_, n, body) => {
            exists|ss: Seq<St>, fs: Seq<Flags>| #![trigger wit(ss, fs)] wit(ss, fs) && rep_w(*body, n as nat, a, b, f, ss, fs)
        },
        // (saturate s): until an execution of s reports no update (partial correctness)
        GenericSchedule::Saturate(_, body) => {
            exists|ss: Seq<St>, fs: Seq<Flags>| #![trigger wit(ss, fs)] wit(ss, fs) && sat_w(*body, a, b, f, ss, fs)
        },
    }
}

pub open spec fn seq_w(v: Vec<ResolvedSchedule>, a: St, b: St, f: Flags, ss: Seq<St>, fs: Seq<Flags>) -> bool
    decreases v, 0int
{
    &&& fs.len() == v@.len()
    &&& ss.len() == fs.len() + 1
    &&& ss[0] == a
    &&& ss.last() == b
    &&& f == f_fold(fs)
    &&& forall|i: int| 0 <= i < v@.len() ==> run_ok(#[trigger] v@[i], ss[i], ss[i + 1], fs[i])
}

pub open spec fn rep_w(body: ResolvedSchedule, n: nat, a: St, b: St, f: Flags, ss: Seq<St>, fs: Seq<Flags>) -> bool
    decreases body, 1int
{
    &&& fs.len() <= n
    &&& ss.len() == fs.len() + 1
    &&& ss[0] == a
    &&& ss.last() == b
    &&& f == f_fold(fs)
    &&& forall|i: int| 0 <= i < fs.len() ==> run_ok(body, #[trigger] ss[i], ss[i + 1], fs[i])
    // never continues after a can_stop, never stops early without one
    &&& forall|i: int| 0 <= i < fs.len() - 1 ==> !(#[trigger] fs[i]).can_stop
    &&& (fs.len() == n || (fs.len() > 0 && fs.last().can_stop))
}

pub open spec fn sat_w(body: ResolvedSchedule, a: St, b: St, f: Flags, ss: Seq<St>, fs: Seq<Flags>) -> bool
    decreases body, 1int
{
    &&& fs.len() >= 1
    &&& ss.len() == fs.len() + 1
    &&& ss[0] == a
    &&& ss.last() == b
    &&& f == f_fold(fs)
    &&& forall|i: int| 0 <= i < fs.len() ==> run_ok(body, #[trigger] ss[i], ss[i + 1], fs[i])
    // every execution but the last changed the database; the last one did not
    &&& forall|i: int| 0 <= i < fs.len() - 1 ==> (#[trigger] fs[i]).updated
    &&& !fs.last().updated
}

pub proof fn lemma_fold_push(fs: Seq<Flags>, x: Flags)
    ensures f_fold(fs.push(x)) == f_union(f_fold(fs), x)
{
    assert(fs.push(x).drop_last() == fs);
}

//@ impl egglog-reports/src/lib.rs impl Default for RunReport
//@ fn default
//@ ret r
//@ at sig
        ensures flags(r) == f_default(),
//@ end-fn
//@ end-impl

//@ impl egglog-reports/src/lib.rs impl RunReport
//@ fn union
//@ rewrite R-BOOLOP self.updated self.can_stop
//@ at sig
        ensures flags(*final(self)) == f_union(flags(*old(self)), flags(other)),
//@ end-fn
//@ end-impl

//@ impl src/lib.rs impl EGraph
//@ fn run_rules
//@ ret r
//@ rewrite R-LETCHAIN
//@ at sig
        ensures
            final(self).rulesets == old(self).rulesets,
            r is Ok ==> run_ok(GenericSchedule::Run(*span, *config), old(self).st@, final(self).st@, flags(r->Ok_0)),
//@ end-fn

//@ fn run_schedule
//@ ret r
//@ rewrite R-ITER 2
//@ at attr
    #[verifier::exec_allows_no_decreases_clause]
//@ at sig
        ensures
            final(self).rulesets == old(self).rulesets,
            r is Ok ==> run_ok(*sched, old(self).st@, final(self).st@, flags(r->Ok_0)),
//@ # ---- Repeat
//@ at before-loop 0
                let ghost mut ss: Seq<St> = seq![self.st@];
                let ghost mut fs: Seq<Flags> = Seq::empty();
//@ at loop 0 spec
                    invariant_except_break
                        fs.len() == _i,
                        forall|i: int| 0 <= i < fs.len() ==> !(#[trigger] fs[i]).can_stop,
                    invariant
                        self.rulesets == old(self).rulesets,
                        ss.len() == fs.len() + 1,
                        ss[0] == old(self).st@,
                        ss.last() == self.st@,
                        flags(report) == f_fold(fs),
                        forall|i: int| 0 <= i < fs.len() ==> run_ok(**sched, #[trigger] ss[i], ss[i + 1], fs[i]),
                    ensures
                        rep_w(**sched, *limit as nat, old(self).st@, self.st@, flags(report), ss, fs),
//@ at break 0
                        proof { lemma_fold_push(fs, flags(rec)); ss = ss.push(self.st@); fs = fs.push(flags(rec)); }
//@ at loop 0 body-end
                    proof { lemma_fold_push(fs, flags(rec)); ss = ss.push(self.st@); fs = fs.push(flags(rec)); }
//@ at after-loop 0
                proof { assert(wit(ss, fs)); }
//@ # ---- Saturate
//@ at before-loop 1
                let ghost mut ss: Seq<St> = seq![self.st@];
                let ghost mut fs: Seq<Flags> = Seq::empty();
//@ at loop 1 spec
                    invariant_except_break
                        forall|i: int| 0 <= i < fs.len() ==> (#[trigger] fs[i]).updated,
                    invariant
                        self.rulesets == old(self).rulesets,
                        ss.len() == fs.len() + 1,
                        ss[0] == old(self).st@,
                        ss.last() == self.st@,
                        flags(report) == f_fold(fs),
                        forall|i: int| 0 <= i < fs.len() ==> run_ok(**sched, #[trigger] ss[i], ss[i + 1], fs[i]),
                    ensures
                        sat_w(**sched, old(self).st@, self.st@, flags(report), ss, fs),
//@ at loop 1 body-start
                    // the counter `i` is only used in log messages: 2^64 iterations are not reachable
                    assume(i < usize::MAX);
//@ at break 1
                        proof { lemma_fold_push(fs, flags(rec)); ss = ss.push(self.st@); fs = fs.push(flags(rec)); }
//@ at loop 1 body-end
                    proof { lemma_fold_push(fs, flags(rec)); ss = ss.push(self.st@); fs = fs.push(flags(rec)); }
//@ at after-loop 1
                proof { assert(wit(ss, fs)); }
//@ # ---- Sequence
//@ at before-loop 2
                let ghost mut ss: Seq<St> = seq![self.st@];
                let ghost mut fs: Seq<Flags> = Seq::empty();
//@ at loop 2 spec
                    invariant
                        self.rulesets == old(self).rulesets,
                        fs.len() == __it2.index@,
                        ss.len() == fs.len() + 1,
                        ss[0] == old(self).st@,
                        ss.last() == self.st@,
                        flags(report) == f_fold(fs),
                        forall|i: int| 0 <= i < fs.len() ==> run_ok(#[trigger] scheds@[i], ss[i], ss[i + 1], fs[i]),
//@ at loop 2 body-start
                    let ghost st0 = self.st@;
                    let ghost r0 = flags(report);
//@ at loop 2 body-end
                    proof {
                        let f = choose|f: Flags| run_ok(*sched, st0, self.st@, f) && flags(report) == f_union(r0, f);
                        lemma_fold_push(fs, f);
                        ss = ss.push(self.st@);
                        fs = fs.push(f);
                    }
//@ at after-loop 2
                proof { assert(wit(ss, fs)); assert(seq_w(*scheds, old(self).st@, self.st@, flags(report), ss, fs)); }
//@ end-fn
//@ end-impl

} // verus!
fn main() {}
