#![feature(allocator_api)]
// U-DISP: core-relations/src/uf/mod.rs  DisplacedTable (the union-find backed table) against a map view,
// on top of the verified UnionFind (unit uf, included here so that callers are checked against its contracts).
use vstd::prelude::*;
use std::sync::Arc;
use std::cmp;
use std::mem;
use vstd::std_specs::cmp::*;
verus! {
//@ include prelude/numeric_id.vs
//@ include prelude/std_extra.vs
broadcast use {stdx::ax_default_bool, nid::ax_id_eq, nid::ax_id_cmp, nid::ax_id_obeys_eq, nid::ax_id_obeys_cmp, nid::ax_id_obeys_partial_cmp, nid::ax_id_partial_cmp, stdx::ax_iter_seq_vec};
//@ idtype Value RowId ColumnId
//@ idtype64 Generation Offset

/// never returns: models `panic!` / failed `assert!` (partial correctness)
#[verifier::external_body]
pub fn vc_panic() -> (r: bool)
    ensures false
{ unimplemented!() }

pub mod union_find {
    use super::*;
    use vstd::prelude::*;
    use vstd::std_specs::cmp::*;
    broadcast use {super::nid::ax_id_eq, super::nid::ax_id_cmp, super::nid::ax_id_obeys_eq, super::nid::ax_id_obeys_cmp};
//@ include units/uf/spec.vs
//@ include units/uf/impl.vs
}
use union_find::{root, wf};

// ---- trusted environment -----------------------------------------------------------------------------
/// A-hash: hashbrown/std HashMap as a finite map
#[verifier::external_body]
#[verifier::reject_recursive_types(K)]
#[verifier::reject_recursive_types(V)]
pub struct HashMap<K, V> { _p: core::marker::PhantomData<(K, V)> }
impl<K, V> HashMap<K, V> {
    pub uninterp spec fn view(&self) -> Map<K, V>;
    #[verifier::external_body]
    pub fn get(&self, k: &K) -> (r: Option<&V>)
        ensures match r { Some(v) => self@.contains_key(*k) && *v == self@[*k], None => !self@.contains_key(*k) }
    { unimplemented!() }
    #[verifier::external_body]
    pub fn insert(&mut self, k: K, v: V) -> (r: Option<V>)
        ensures final(self)@ == old(self)@.insert(k, v)
    { unimplemented!() }
    #[verifier::external_body]
    pub fn clear(&mut self)
        ensures final(self)@ == Map::<K, V>::empty()
    { unimplemented!() }
}
#[verifier::external_body]
#[verifier::reject_recursive_types(T)]
pub struct SegQueue<T> { _p: core::marker::PhantomData<T> }
#[verifier::external_body]
pub struct RowBuffer { _p: core::marker::PhantomData<u8> }
#[verifier::external_body]
pub struct SortedOffsetVector { _p: core::marker::PhantomData<u8> }

//@ item core-relations/src/table_spec.rs enum Constraint
//@ item core-relations/src/table_spec.rs struct TableVersion
//@ item core-relations/src/offsets/mod.rs struct OffsetRange
//@ item core-relations/src/offsets/mod.rs enum Subset
//@ item core-relations/src/uf/mod.rs type UnionFind
//@ item core-relations/src/uf/mod.rs struct DisplacedTable

// A-db: with_pool_set(|ps| ps.get::<Vec<Value>>()) hands out an empty pooled vector (Pooled<T> is transparent)
pub type Pooled<T> = T;
#[verifier::external_body]
pub struct PoolSet { _p: core::marker::PhantomData<u8> }
impl PoolSet {
    #[verifier::external_body]
    pub fn get<T>(&self) -> (r: Vec<Value>) ensures r@.len() == 0 { unimplemented!() }
}
#[verifier::external_body]
pub fn with_pool_set<R, F: FnOnce(&PoolSet) -> R>(f: F) -> (r: R)
    ensures exists|ps: &PoolSet| f.ensures((ps,), r)
{ unimplemented!() }
//@ item core-relations/src/table_spec.rs struct Row

//@ impl core-relations/src/offsets/mod.rs impl OffsetRange
//@ fn new
//@ ret r
//@ at sig
        // the debug_assert of the real code, as a precondition every caller must establish
        requires start.ix() <= end.ix(),
        ensures r.start == start, r.end == end,
//@ end-fn
//@ end-impl

//@ impl core-relations/src/offsets/mod.rs impl Subset
//@ fn empty
//@ ret r
//@ at sig
        ensures r == Subset::Dense(OffsetRange { start: RowId { rep: 0 }, end: RowId { rep: 0 } }),
//@ end-fn
//@ end-impl

// ---------------- the abstract view (C16 / C01) ---------------------------------------------------------
/// the rows a dense subset denotes
pub open spec fn dense_has(s: Subset, r: int) -> bool {
    s is Dense && s->Dense_0.start.ix() <= r < s->Dense_0.end.ix()
}

pub open spec fn cols_ok(c: Constraint, n: nat) -> bool {
    match c {
        Constraint::Eq { l_col, r_col } => l_col.ix() < n && r_col.ix() < n,
        Constraint::EqConst { col, val } => col.ix() < n,
        Constraint::LtConst { col, val } => col.ix() < n,
        Constraint::GtConst { col, val } => col.ix() < n,
        Constraint::LeConst { col, val } => col.ix() < n,
        Constraint::GeConst { col, val } => col.ix() < n,
    }
}

/// meaning of a constraint on a row
pub open spec fn sat(c: Constraint, row: Seq<Value>) -> bool {
    match c {
        Constraint::Eq { l_col, r_col } => row[l_col.ix() as int].ix() == row[r_col.ix() as int].ix(),
        Constraint::EqConst { col, val } => row[col.ix() as int].ix() == val.ix(),
        Constraint::LtConst { col, val } => row[col.ix() as int].ix() < val.ix(),
        Constraint::GtConst { col, val } => row[col.ix() as int].ix() > val.ix(),
        Constraint::LeConst { col, val } => row[col.ix() as int].ix() <= val.ix(),
        Constraint::GeConst { col, val } => row[col.ix() as int].ix() >= val.ix(),
    }
}

impl DisplacedTable {
    pub open spec fn p(&self) -> Seq<Value> { self.uf.parents@ }
    pub open spec fn n(&self) -> nat { self.displaced@.len() }

    /// representation invariant
    pub open spec fn inv(&self) -> bool {
        &&& wf(self.p())
        // lookup_table is exactly the index child -> row of `displaced` (so children are distinct)
        &&& forall|r: int| 0 <= r < self.n() ==> self.lookup_table@.contains_key((#[trigger] self.displaced@[r]).0)
                && self.lookup_table@[self.displaced@[r].0].ix() == r
        &&& forall|k: Value| #[trigger] self.lookup_table@.contains_key(k) ==> self.lookup_table@[k].ix() < self.n()
                && self.displaced@[self.lookup_table@[k].ix() as int].0 == k
        // rows are sorted by timestamp
        &&& forall|i: int, j: int| 0 <= i <= j < self.n() ==> (#[trigger] self.displaced@[i]).1.ix() <= (#[trigger] self.displaced@[j]).1.ix()
        // a displaced id is never canonical
        &&& forall|r: int| 0 <= r < self.n() ==> root(self.p(), (#[trigger] self.displaced@[r]).0.ix()) != self.displaced@[r].0.ix()
        // and every non-canonical id is displaced: the table holds exactly the ids that lost their class
        &&& forall|k: Value| #![trigger self.lookup_table@.contains_key(k)] root(self.p(), k.ix()) != k.ix() ==> self.lookup_table@.contains_key(k)
    }

    /// row r as the table presents it: [displaced id, its canonical id, timestamp]
    pub open spec fn row_ok(&self, r: int, row: Seq<Value>) -> bool {
        &&& row.len() == 3
        &&& row[0] == self.displaced@[r].0
        &&& row[1].ix() == root(self.p(), self.displaced@[r].0.ix())
        &&& row[2] == self.displaced@[r].1
    }

    pub open spec fn row(&self, r: int) -> Seq<Value> {
        seq![self.displaced@[r].0, Value { rep: root(self.p(), self.displaced@[r].0.ix()) as u32 }, self.displaced@[r].1]
    }
}

//@ fn core-relations/src/uf/mod.rs eval_constraint
//@ ret r
//@ at sig
    requires cols_ok(*constraint, N as nat),
    ensures r == sat(*constraint, vals@),
//@ end-fn

//@ impl core-relations/src/uf/mod.rs impl DisplacedTable
//@ fn expand
//@ ret r
//@ at sig
        requires self.inv(), row.ix() < self.n(),
        ensures self.row_ok(row.ix() as int, r@),
//@ end-fn

//@ fn timestamp_bounds
//@ ret r
//@ rewrite R-CLOSPAT &(Value,Value) Value
//@ at sig
        requires self.inv(),
        ensures
            match r {
                // rows lo..hi are exactly the rows stamped `val`
                Ok((lo, hi)) => lo.ix() < hi.ix() <= self.n()
                    && (forall|i: int| 0 <= i < self.n() ==> ((#[trigger] self.displaced@[i]).1.ix() == val.ix() <==> lo.ix() <= i < hi.ix()))
                    && (forall|i: int| 0 <= i < lo.ix() ==> (#[trigger] self.displaced@[i]).1.ix() < val.ix())
                    && (forall|i: int| hi.ix() <= i < self.n() ==> (#[trigger] self.displaced@[i]).1.ix() > val.ix()),
                // no row is stamped `val`; p is the partition point
                Err(p) => p.ix() <= self.n()
                    && (forall|i: int| 0 <= i < p.ix() ==> (#[trigger] self.displaced@[i]).1.ix() < val.ix())
                    && (forall|i: int| p.ix() <= i < self.n() ==> (#[trigger] self.displaced@[i]).1.ix() > val.ix()),
            },
//@ at closure 0 spec
            ensures r == __p.1,
//@ at loop 0 spec
                    invariant
                        self.inv(),
                        off <= next, next < self.n(),
                        self.displaced@[next as int].1.ix() == val.ix(),
                        forall|i: int| off <= i <= next ==> (#[trigger] self.displaced@[i]).1.ix() == val.ix(),
                    decreases off,
//@ at loop 1 spec
                    invariant
                        self.inv(),
                        off <= next, next <= self.n(),
                        forall|i: int| off <= i < next ==> (#[trigger] self.displaced@[i]).1.ix() == val.ix(),
                        off > 0 ==> self.displaced@[off - 1].1.ix() != val.ix(),
                        next > off || (next < self.n() && self.displaced@[next as int].1.ix() == val.ix()),
                    decreases self.n() - next,
//@ at after-loop 1
                proof {
                    assert forall|i: int| 0 <= i < off implies (#[trigger] self.displaced@[i]).1.ix() < val.ix() by {
                        assert(self.displaced@[i].1.ix() <= self.displaced@[off - 1].1.ix());
                        assert(self.displaced@[off - 1].1.ix() <= self.displaced@[off as int].1.ix());
                    }
                    assert forall|i: int| next <= i < self.n() implies (#[trigger] self.displaced@[i]).1.ix() > val.ix() by {
                        assert(self.displaced@[next as int].1.ix() <= self.displaced@[i].1.ix());
                        assert(self.displaced@[off as int].1.ix() <= self.displaced@[next as int].1.ix());
                    }
                }
//@ end-fn

//@ fn eval
//@ ret r
//@ at sig
        requires self.inv(), row.ix() < self.n(), cols_ok(*constraint, 3),
        ensures r == sat(*constraint, self.row(row.ix() as int)),
//@ end-fn

//@ fn insert_impl
//@ ret r
//@ rewrite R-ASSERT
//@ at sig
        requires old(self).inv(), row@.len() >= 2 ==> row@[0].ix() < usize::MAX && row@[1].ix() < usize::MAX,
        ensures
            final(self).inv(),
            final(self).changed == old(self).changed,
            ({
                let a = row@[0].ix();
                let b = row@[1].ix();
                let lo = union_find::union_result(old(self).p(), a, b).0;
                let hi = union_find::union_result(old(self).p(), a, b).1;
                // already equal: nothing is recorded, the partition is unchanged
                &&& (r is None <==> lo == hi)
                &&& (r is None ==> final(self).displaced@ == old(self).displaced@ && final(self).lookup_table@ == old(self).lookup_table@
                        && forall|j: nat| root(final(self).p(), j) == root(old(self).p(), j))
                // otherwise: exactly the class of the larger representative moves under the smaller one, and
                // exactly one row (displaced id = larger representative, the given timestamp) is appended
                &&& (r is Some ==> r->Some_0.0.ix() == lo && r->Some_0.1.ix() == hi
                        && final(self).displaced@ == old(self).displaced@.push((r->Some_0.1, row@[2]))
                        && final(self).lookup_table@ == old(self).lookup_table@.insert(r->Some_0.1, RowId { rep: old(self).n() as u32 })
                        && forall|j: nat| #[trigger] root(final(self).p(), j) == (if root(old(self).p(), j) == hi { lo } else { root(old(self).p(), j) }))
            }),
//@ at entry
        proof {
            union_find::lemma_link_all(old(self).p());
            if row@.len() >= 2 {
                union_find::lemma_root_le(old(self).p(), row@[0].ix());
                union_find::lemma_root_le(old(self).p(), row@[1].ix());
            }
        }
//@ at tail
        proof {
            let p0 = old(self).p();
            let hi = union_find::union_result(p0, row@[0].ix(), row@[1].ix()).1;
            let lo = union_find::union_result(p0, row@[0].ix(), row@[1].ix()).0;
            assert(root(p0, hi) == hi);
            assert(!old(self).lookup_table@.contains_key(child)) by {
                if old(self).lookup_table@.contains_key(child) {
                    let r0 = old(self).lookup_table@[child].ix() as int;
                    assert(old(self).displaced@[r0].0 == child);
                }
            }
            assert forall|r: int| 0 <= r < self.n() implies root(self.p(), (#[trigger] self.displaced@[r]).0.ix()) != self.displaced@[r].0.ix() by {
                let c = self.displaced@[r].0;
                if r < old(self).n() {
                    assert(c == old(self).displaced@[r].0);
                    union_find::lemma_root_le(p0, c.ix());
                }
            }
            assert forall|i: int, j: int| 0 <= i <= j < self.n() implies (#[trigger] self.displaced@[i]).1.ix() <= (#[trigger] self.displaced@[j]).1.ix() by {
                if j < old(self).n() {
                    assert(old(self).displaced@[i].1.ix() <= old(self).displaced@[j].1.ix());
                } else if i < old(self).n() {
                    assert(old(self).displaced@[i].1.ix() <= old(self).displaced@.last().1.ix());
                }
            }
        }
//@ end-fn
//@ end-impl

//@ impl core-relations/src/uf/mod.rs impl Table for DisplacedTable => impl DisplacedTable
//@ fn clear
//@ at sig
        requires old(self).inv(),
        ensures
            final(self).inv(),
            final(self).n() == 0,
            final(self).lookup_table@ == Map::<Value, RowId>::empty(),
//@ end-fn

//@ fn len
//@ ret r
//@ at sig
        ensures r == self.n(),
//@ end-fn

//@ fn all
//@ ret r
//@ at sig
        ensures forall|i: int| dense_has(r, i) <==> 0 <= i < self.n(),
//@ end-fn

//@ fn version
//@ ret r
//@ at sig
        ensures r.major.ix() == 0, r.minor.ix() == self.n(),
//@ end-fn

//@ fn updates_since
//@ ret r
//@ at sig
        requires offset.ix() <= self.n(),
        ensures forall|i: int| dense_has(r, i) <==> offset.ix() <= i < self.n(),
//@ end-fn

//@ fn get_row
//@ ret r
//@ rewrite R-ASSERT
//@ rewrite R-CLOSANN 0 &PoolSet Vec<Value>
//@ at sig
        requires self.inv(),
        ensures match r {
            // the row [k, canonical id of k, timestamp] exists exactly for displaced ids (what the bridge's get_canon_in_uf reads)
            Some(row) => self.lookup_table@.contains_key(key@[0]) && row.id == self.lookup_table@[key@[0]]
                && self.row_ok(row.id.ix() as int, row.vals@) && row.vals@[0] == key@[0],
            // no row: the id is canonical (its own representative)
            None => !self.lookup_table@.contains_key(key@[0]) && root(self.p(), key@[0].ix()) == key@[0].ix(),
        }
//@ at closure 0 spec
            ensures r@.len() == 0
//@ end-fn

//@ fn get_row_column
//@ ret r
//@ rewrite R-ASSERT
//@ at sig
        requires self.inv(), col.ix() < 3,
        ensures
            // column 1 of ANY id is its canonical id (C01: the table reports the representative)
            col.ix() == 1 ==> r is Some && r->Some_0.ix() == root(self.p(), key@[0].ix()),
            col.ix() != 1 ==> (r is Some <==> self.lookup_table@.contains_key(key@[0])),
            col.ix() != 1 && r is Some ==> r->Some_0 == self.row(self.lookup_table@[key@[0]].ix() as int)[col.ix() as int],
//@ end-fn

//@ fn fast_subset
//@ ret r
//@ at sig
        requires self.inv(), cols_ok(*constraint, 3),
        ensures
            // when an index answer is given it is EXACTLY the set of rows satisfying the constraint
            r is Some ==> r->Some_0 is Dense && forall|i: int| 0 <= i < self.n() ==> (dense_has(r->Some_0, i) <==> sat(*constraint, self.row(i))),
            r is Some ==> forall|i: int| dense_has(r->Some_0, i) ==> 0 <= i < self.n(),
//@ at entry
        proof {
            assert(self.displaced.len() == self.n());
            assert forall|i: int| 0 <= i < self.n() implies (#[trigger] self.row(i))[0] == self.displaced@[i].0
                && self.row(i)[2] == self.displaced@[i].1 && self.row(i).len() == 3 by {}
        }
//@ end-fn
//@ end-impl

//@ item core-relations/src/uf/mod.rs struct Canonicalizer

//@ impl core-relations/src/uf/mod.rs impl ValueRebuilder for Canonicalizer<'_> => impl Canonicalizer<'_>
//@ fn rebuild_val
//@ ret r
//@ at sig
        requires self.table.inv(),
        // C01/C14: the rebuilder handed to tables and containers maps every id to its canonical id
        ensures r.ix() == root(self.table.p(), val.ix()),
//@ end-fn
//@ end-impl

// ---- DisplacedTable::merge: staged union rows reach insert_impl unchanged; the partition only coarsens ----------
// A-arith: 64-bit target (a u32 id is then always below usize::MAX, which `UnionFind::reserve` needs)
global size_of usize == 8;

#[verifier::external_body]
pub struct MergeState { _p: core::marker::PhantomData<u8> }
//@ item core-relations/src/table_spec.rs struct TableChange

impl<T> SegQueue<T> {
    // A-db: crossbeam SegQueue::pop: some buffered element, or None when the queue is (momentarily) empty
    #[verifier::external_body]
    pub fn pop(&self) -> Option<T> { unimplemented!() }
}
impl RowBuffer {
    // A-db: the rows of a staged buffer, in order (RowBuffer::iter transmutes Cell<Value> slices: outside Verus)
    #[verifier::external_body]
    pub fn iter(&self) -> (r: &Vec<Vec<Value>>)
        ensures forall|k: int| 0 <= k < r@.len() ==> (#[trigger] r@[k])@.len() == 3
    { unimplemented!() }
}

//@ impl core-relations/src/uf/mod.rs impl Table for DisplacedTable => impl DisplacedTable
//@ fn merge
//@ ret r
//@ rewrite R-PARAMNAME
//@ rewrite R-BOOLOP self.changed
//@ rewrite R-ITER 1
//@ at attr
    #[verifier::exec_allows_no_decreases_clause]
//@ at sig
        requires old(self).inv(), !old(self).changed,
        ensures
            final(self).inv(),
            !final(self).changed,
            // rows are only appended, and the table reports a change exactly when a union actually merged two classes
            final(self).n() >= old(self).n(),
            forall|k: int| 0 <= k < old(self).n() ==> #[trigger] final(self).displaced@[k] == old(self).displaced@[k],
            r.added == (final(self).n() > old(self).n()),
            r.removed == r.added,
            // merging never splits a class
            forall|x: nat, y: nat| #![trigger root(final(self).p(), x), root(final(self).p(), y)]
                root(old(self).p(), x) == root(old(self).p(), y) ==> root(final(self).p(), x) == root(final(self).p(), y),
//@ at loop 0 spec
            invariant
                self.inv(),
                self.n() >= old(self).n(),
                forall|k: int| 0 <= k < old(self).n() ==> #[trigger] self.displaced@[k] == old(self).displaced@[k],
                self.changed == (self.n() > old(self).n()),
                forall|x: nat, y: nat| #![trigger root(self.p(), x), root(self.p(), y)]
                    root(old(self).p(), x) == root(old(self).p(), y) ==> root(self.p(), x) == root(self.p(), y),
//@ at before-loop 1
            #[verifier::loop_isolation(false)]
//@ at loop 1 spec
                invariant
                    self.inv(),
                    self.n() >= old(self).n(),
                    forall|k: int| 0 <= k < old(self).n() ==> #[trigger] self.displaced@[k] == old(self).displaced@[k],
                    self.changed == (self.n() > old(self).n()),
                    forall|x: nat, y: nat| #![trigger root(self.p(), x), root(self.p(), y)]
                        root(old(self).p(), x) == root(old(self).p(), y) ==> root(self.p(), x) == root(self.p(), y),
//@ end-fn
//@ end-impl

// ---- Canonicalizer::rebuild_subset: what one incremental rebuild pass does to the rows it scans (C01 / C04) ----
/// A-db: TaggedRowBuffer as a sequence of (source row id, row) pairs with a stale flag each
#[verifier::external_body]
pub struct TaggedRowBuffer { _p: core::marker::PhantomData<u8> }
pub struct TRow { pub id: RowId, pub vals: Seq<Value>, pub stale: bool }
#[verifier::external_body]
pub struct ExecutionState { _p: core::marker::PhantomData<u8> }
#[verifier::external_body]
#[derive(Clone, Copy)]
pub struct WrappedTableRef<'a> { _p: core::marker::PhantomData<&'a u8> }
#[verifier::external_body]
#[derive(Clone, Copy)]
pub struct SubsetRef<'a> { _p: core::marker::PhantomData<&'a u8> }
/// the rows of `other` selected by `subset`, in scan order (all of the table's arity, none stale)
pub uninterp spec fn scanned(other: WrappedTableRef<'_>, subset: SubsetRef<'_>) -> Seq<TRow>;
pub uninterp spec fn arity(other: WrappedTableRef<'_>) -> nat;

impl TaggedRowBuffer {
    pub uninterp spec fn view(&self) -> Seq<TRow>;
    #[verifier::external_body]
    pub fn len(&self) -> (r: usize) ensures r == self@.len() { unimplemented!() }
    #[verifier::external_body]
    pub fn get_row_mut(&mut self, row: RowId) -> (r: (RowId, &mut [Value]))
        requires row.ix() < old(self)@.len(),
        ensures
            r.0 == old(self)@[row.ix() as int].id,
            r.1@ == old(self)@[row.ix() as int].vals,
            final(self)@.len() == old(self)@.len(),
            final(self)@[row.ix() as int] == (TRow { id: old(self)@[row.ix() as int].id, vals: final(r.1)@, stale: old(self)@[row.ix() as int].stale }),
            final(r.1)@.len() == r.1@.len(),
            forall|j: int| 0 <= j < old(self)@.len() && j != row.ix() ==> final(self)@[j] == old(self)@[j],
    { unimplemented!() }
    #[verifier::external_body]
    pub fn set_stale(&mut self, row: RowId) -> (r: bool)
        requires row.ix() < old(self)@.len(),
        ensures
            final(self)@.len() == old(self)@.len(),
            final(self)@[row.ix() as int] == (TRow { id: old(self)@[row.ix() as int].id, vals: old(self)@[row.ix() as int].vals, stale: true }),
            forall|j: int| 0 <= j < old(self)@.len() && j != row.ix() ==> final(self)@[j] == old(self)@[j],
    { unimplemented!() }
}
impl WrappedTableRef<'_> {
    // A-db: scanning an unbounded number of rows of a subset appends exactly those rows and reports completion
    #[verifier::external_body]
    pub fn scan_bounded(self, subset: SubsetRef<'_>, start: Offset, n: usize, out: &mut TaggedRowBuffer) -> (r: Option<Offset>)
        ensures
            start.ix() == 0 && n == usize::MAX ==> r is None && final(out)@ == old(out)@ + scanned(self, subset),
            forall|k: int| 0 <= k < scanned(self, subset).len() ==> (#[trigger] scanned(self, subset)[k]).vals.len() == arity(self) && !scanned(self, subset)[k].stale,
    { unimplemented!() }
}

/// the row a rebuild pass must produce from `src`: every column in `cols` replaced by the canonical id
pub open spec fn canon_row(p: Seq<Value>, cols: Seq<ColumnId>, src: Seq<Value>, dst: Seq<Value>) -> bool {
    &&& dst.len() == src.len()
    &&& forall|c: int| 0 <= c < src.len() ==> #[trigger] dst[c].ix() ==
            (if exists|k: int| 0 <= k < cols.len() && cols[k].ix() == c { root(p, src[c].ix()) } else { src[c].ix() })
}

pub open spec fn row_is_canon(p: Seq<Value>, cols: Seq<ColumnId>, src: Seq<Value>) -> bool {
    forall|k: int| 0 <= k < cols.len() ==> root(p, src[(#[trigger] cols[k]).ix() as int].ix()) == src[cols[k].ix() as int].ix()
}

//@ impl core-relations/src/uf/mod.rs impl Rebuilder for Canonicalizer<'_> => impl Canonicalizer<'_>
//@ fn rebuild_subset
//@ rewrite R-BOOLOP changed
//@ rewrite R-HOISTEND 0
//@ rewrite R-ITER 1
//@ at sig
        requires
            self.table.inv(),
            old(out)@.len() + scanned(other, subset).len() <= u32::MAX,
            forall|k: int| 0 <= k < self.cols@.len() ==> (#[trigger] self.cols@[k]).ix() < arity(other),
        ensures
            final(out)@.len() == old(out)@.len() + scanned(other, subset).len(),
            // what was in the buffer before is untouched
            forall|j: int| 0 <= j < old(out)@.len() ==> #[trigger] final(out)@[j] == old(out)@[j],
            // every scanned row comes out with the rebuilt columns canonical and everything else unchanged;
            // it is marked stale ("nothing to do") exactly when it was already canonical
            forall|j: int| 0 <= j < scanned(other, subset).len() ==> ({
                let src = scanned(other, subset)[j];
                let dst = #[trigger] final(out)@[old(out)@.len() + j];
                &&& dst.id == src.id
                &&& canon_row(self.table.p(), self.cols@, src.vals, dst.vals)
                &&& dst.stale == row_is_canon(self.table.p(), self.cols@, src.vals)
            }),
//@ at loop 0 spec
            invariant
                self.table.inv(),
                old_len == old(out)@.len(),
                __e0 == out@.len(),
                old_len <= i,
                forall|k: int| 0 <= k < scanned(other, subset).len() ==> (#[trigger] scanned(other, subset)[k]).vals.len() == arity(other) && !scanned(other, subset)[k].stale,
                out@.len() == old(out)@.len() + scanned(other, subset).len(),
                out@.len() <= u32::MAX,
                forall|k: int| 0 <= k < self.cols@.len() ==> (#[trigger] self.cols@[k]).ix() < arity(other),
                forall|j: int| 0 <= j < old(out)@.len() ==> #[trigger] out@[j] == old(out)@[j],
                forall|j: int| i <= j < out@.len() ==> #[trigger] out@[j] == scanned(other, subset)[j - old(out)@.len()],
                forall|j: int| old(out)@.len() <= j < i ==> ({
                    let src = scanned(other, subset)[j - old(out)@.len()];
                    let dst = #[trigger] out@[j];
                    &&& dst.id == src.id
                    &&& canon_row(self.table.p(), self.cols@, src.vals, dst.vals)
                    &&& dst.stale == row_is_canon(self.table.p(), self.cols@, src.vals)
                }),
//@ at loop 0 body-start
            let ghost src = scanned(other, subset)[i as int - old(out)@.len()];
            let ghost out0 = out@;
//@ at loop 1 spec
                invariant
                    self.table.inv(),
                    row@.len() == src.vals.len(),
                    src.vals.len() == arity(other),
                    forall|k: int| 0 <= k < self.cols@.len() ==> (#[trigger] self.cols@[k]).ix() < arity(other),
                    // columns named by the first `index` entries of cols are canonical, the others still as scanned
                    forall|c: int| 0 <= c < src.vals.len() ==> #[trigger] row@[c].ix() ==
                        (if exists|k: int| 0 <= k < __it1.index@ && self.cols@[k].ix() == c { root(self.table.p(), src.vals[c].ix()) } else { src.vals[c].ix() }),
                    changed == !(forall|k: int| 0 <= k < __it1.index@ ==> root(self.table.p(), src.vals[(#[trigger] self.cols@[k]).ix() as int].ix()) == src.vals[self.cols@[k].ix() as int].ix()),
//@ at loop 1 body-start
                proof { union_find::lemma_root_fixed(self.table.p(), src.vals[col.ix() as int].ix()); }
//@ end-fn
//@ end-impl

} // verus!
fn main() {}
