#![feature(allocator_api)]
// U-SEMI: egglog-bridge/src/rule.rs  Query::add_rules_from_cached  (the seminaive delta-variant generator)
use vstd::prelude::*;
use std::sync::Arc;
use vstd::std_specs::cmp::*;
verus! {
//@ include prelude/numeric_id.vs
broadcast use {nid::ax_id_eq, nid::ax_id_cmp, nid::ax_id_obeys_eq, nid::ax_id_obeys_cmp, nid::ax_id_obeys_partial_cmp, nid::ax_id_partial_cmp};
//@ idtype Value Timestamp TableId ColumnId AtomId RuleId

// ---- trusted environment ---------------------------------------------------------------------------
#[verifier::external_body]
pub struct QueryEntry { _p: core::marker::PhantomData<u8> }
#[verifier::external_body]
pub struct CachedPlan { _p: core::marker::PhantomData<u8> }
pub mod core_relations {
    pub use super::{CachedPlan, AtomId};
}

//@ item core-relations/src/table_spec.rs enum Constraint
//@ item egglog-bridge/src/lib.rs struct SchemaMath
//@ item egglog-bridge/src/lib.rs struct CachedPlanInfo
//@ item egglog-bridge/src/rule.rs struct Query only atoms sole_focus seminaive

/// one `add_rule_from_cached_plan` call: the plan and the extra constraints, in order
pub struct AddRuleCall { pub plan: Arc<CachedPlan>, pub constraints: Seq<(AtomId, Constraint)> }

/// A-db: RuleSetBuilder::add_rule_from_cached_plan adds the cached rule restricted by the given
/// per-atom constraints (ghost log of the calls)
#[verifier::external_body]
pub struct RuleSetBuilder { _p: core::marker::PhantomData<u8> }
impl RuleSetBuilder {
    pub uninterp spec fn log(&self) -> Seq<AddRuleCall>;
    #[verifier::external_body]
    pub fn add_rule_from_cached_plan(&mut self, cached: &Arc<CachedPlan>, extra_constraints: &[(AtomId, Constraint)]) -> Option<RuleId>
        ensures final(self).log() == old(self).log().push(AddRuleCall { plan: *cached, constraints: extra_constraints@ }),
    { unimplemented!() }
}

// ---------------- specification (C03) ---------------------------------------------------------------
pub open spec fn ts_col_of(q: Query, i: int) -> ColumnId { ColumnId { rep: q.atoms@[i].2.func_cols as u32 } }

pub open spec fn ge_c(q: Query, cp: CachedPlanInfo, i: int, mid: Timestamp) -> (AtomId, Constraint) {
    (cp.atom_mapping@[i], Constraint::GeConst { col: ts_col_of(q, i), val: Value { rep: mid.rep } })
}

pub open spec fn lt_c(q: Query, cp: CachedPlanInfo, i: int, mid: Timestamp) -> (AtomId, Constraint) {
    (cp.atom_mapping@[i], Constraint::LtConst { col: ts_col_of(q, i), val: Value { rep: mid.rep } })
}

/// delta variant with focus atom f: atom f is new (ts >= mid), every earlier atom is old (ts < mid),
/// later atoms are unconstrained. The focus constraint comes first.
pub open spec fn variant(q: Query, cp: CachedPlanInfo, f: int, mid: Timestamp) -> Seq<(AtomId, Constraint)> {
    seq![ge_c(q, cp, f, mid)] + Seq::new(f as nat, |i: int| lt_c(q, cp, i, mid))
}

pub open spec fn variants_upto(q: Query, cp: CachedPlanInfo, mid: Timestamp, n: nat) -> Seq<AddRuleCall>
    decreases n
{
    if n == 0 { Seq::empty() }
    else { variants_upto(q, cp, mid, (n - 1) as nat).push(AddRuleCall { plan: cp.plan, constraints: variant(q, cp, n - 1, mid) }) }
}

/// the rules `add_rules_from_cached` must add for a rule last run at `mid`
pub open spec fn semi_variants(q: Query, mid: Timestamp, cp: CachedPlanInfo) -> Seq<AddRuleCall> {
    let n = q.atoms@.len();
    if !q.seminaive || (n == 0 && mid.rep == 0) {
        // naive, or nothing to restrict: the rule as is, exactly once
        seq![AddRuleCall { plan: cp.plan, constraints: Seq::empty() }]
    } else if q.sole_focus is Some {
        seq![AddRuleCall { plan: cp.plan, constraints: seq![ge_c(q, cp, q.sole_focus->Some_0 as int, mid)] }]
    } else if mid.rep == 0 {
        // first run: everything is new; only the variant with focus 0 (no "old" atoms) can match
        seq![AddRuleCall { plan: cp.plan, constraints: seq![ge_c(q, cp, 0, mid)] }]
    } else {
        variants_upto(q, cp, mid, n)
    }
}

/// equality of call logs up to extensional equality of the constraint lists
pub open spec fn log_eq(a: Seq<AddRuleCall>, b: Seq<AddRuleCall>) -> bool {
    a.len() == b.len() && forall|i: int| 0 <= i < a.len() ==> (#[trigger] a[i]).plan == b[i].plan && a[i].constraints =~= b[i].constraints
}

// ---- the seminaive partition theorem at this level ---------------------------------------------------
/// does a variant accept a match whose atom i carries timestamp ts[i]?  (only the timestamp constraints matter)
pub open spec fn accepts(f: int, ts: Seq<nat>, mid: nat) -> bool {
    ts[f] >= mid && forall|i: int| 0 <= i < f ==> ts[i] < mid
}

/// Every match with at least one new atom is produced by exactly one variant (the one whose focus is
/// the first new atom); a match whose atoms are all old is produced by none.
pub proof fn lemma_variants_partition(ts: Seq<nat>, mid: nat)
    ensures
        (exists|i: int| 0 <= i < ts.len() && ts[i] >= mid) ==>
            exists|f: int| 0 <= f < ts.len() && accepts(f, ts, mid)
                && forall|g: int| 0 <= g < ts.len() && accepts(g, ts, mid) ==> g == f,
        (forall|i: int| 0 <= i < ts.len() ==> ts[i] < mid) ==>
            forall|f: int| 0 <= f < ts.len() ==> !accepts(f, ts, mid),
{
    if exists|i: int| 0 <= i < ts.len() && ts[i] >= mid {
        let f = first_new(ts, mid, 0);
        lemma_first_new(ts, mid, 0);
        assert(accepts(f, ts, mid));
        assert forall|g: int| 0 <= g < ts.len() && accepts(g, ts, mid) implies g == f by {
            if g < f { assert(ts[g] < mid); }
            if f < g { assert(ts[f] < mid); }
        }
    }
}

pub open spec fn first_new(ts: Seq<nat>, mid: nat, from: int) -> int
    decreases ts.len() - from
{
    if from >= ts.len() { ts.len() as int } else if ts[from] >= mid { from } else { first_new(ts, mid, from + 1) }
}

pub proof fn lemma_first_new(ts: Seq<nat>, mid: nat, from: int)
    requires 0 <= from, exists|i: int| from <= i < ts.len() && ts[i] >= mid,
    ensures
        from <= first_new(ts, mid, from) < ts.len(),
        ts[first_new(ts, mid, from)] >= mid,
        forall|i: int| from <= i < first_new(ts, mid, from) ==> ts[i] < mid,
    decreases ts.len() - from
{
    if from < ts.len() && ts[from] < mid {
        let w = choose|i: int| from <= i < ts.len() && ts[i] >= mid;
        assert(from + 1 <= w);
        lemma_first_new(ts, mid, from + 1);
    }
}

//@ impl egglog-bridge/src/lib.rs impl SchemaMath
//@ fn ts_col
//@ ret r
//@ at sig
        ensures r == self.func_cols,
//@ end-fn
//@ end-impl

//@ impl egglog-bridge/src/lib.rs impl Timestamp
//@ fn to_value
//@ ret r
//@ at sig
        ensures r == (Value { rep: self.rep }),
//@ end-fn
//@ end-impl

//@ impl egglog-bridge/src/rule.rs impl Query
//@ fn add_rules_from_cached
//@ rewrite R-FOR 0
//@ rewrite R-ENUM 1
//@ at sig
        requires
            // one plan atom per query atom (build_cached_plan pushes exactly one per atom)
            cached_plan.atom_mapping@.len() == self.atoms@.len(),
            self.sole_focus is Some ==> self.sole_focus->Some_0 < self.atoms@.len(),
            // timestamp columns fit a ColumnId (from_usize panics otherwise)
            forall|i: int| 0 <= i < self.atoms@.len() ==> (#[trigger] self.atoms@[i]).2.func_cols <= u32::MAX,
        ensures
            log_eq(final(rsb).log(), old(rsb).log() + semi_variants(*self, mid_ts, *cached_plan)),
//@ at loop 0 spec
            invariant
                __i0 <= __e0,
                __e0 == self.atoms@.len(),
                mid_ts.rep != 0 ==> log_eq(rsb.log(), old(rsb).log() + variants_upto(*self, *cached_plan, mid_ts, __i0 as nat)),
                mid_ts.rep == 0 ==> log_eq(rsb.log(), old(rsb).log() + (if __i0 == 0 { Seq::<AddRuleCall>::empty() } else { seq![AddRuleCall { plan: cached_plan.plan, constraints: seq![ge_c(*self, *cached_plan, 0, mid_ts)] }] })),
            decreases __e0 - __i0,
//@ at loop 1 spec
                invariant
                    __j1 <= __n1,
                    __n1 == focus_atom,
                    focus_atom < self.atoms@.len(),
                    mid_ts.rep != 0 ==> constraints@ =~= seq![ge_c(*self, *cached_plan, focus_atom as int, mid_ts)] + Seq::new(__j1 as nat, |i: int| lt_c(*self, *cached_plan, i, mid_ts)),
                    mid_ts.rep == 0 ==> __j1 == 0 && constraints@ =~= seq![ge_c(*self, *cached_plan, focus_atom as int, mid_ts)],
                decreases __n1 - __j1,
//@ end-fn
//@ end-impl

} // verus!
fn main() {}
