// U-UF: union-find/src/lib.rs  UnionFind::{reserve, union, find, find_naive}
use vstd::prelude::*;
use std::cmp;
use vstd::std_specs::cmp::*;
verus! {
//@ include prelude/numeric_id.vs


//@ include units/uf/spec.vs
//@ include units/uf/impl.vs
} // verus!
fn main() {}
