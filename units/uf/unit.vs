// U-UF: union-find/src/lib.rs  UnionFind::{reserve, union, find, find_naive}
use vstd::prelude::*;
use std::cmp;
use vstd::std_specs::cmp::*;
verus! {
//@ include prelude/numeric_id.vs


//@ item union-find/src/lib.rs struct UnionFind

// ---------------- abstract view ----------------
pub open spec fn wf<V: NumericId>(p: Seq<V>) -> bool {
    forall|i: int| 0 <= i < p.len() ==> (#[trigger] p[i]).ix() <= i
}

/// root(p, i): follow parents from i. Well-founded because of the min-id discipline (wf).
pub open spec fn root<V: NumericId>(p: Seq<V>, i: nat) -> nat
    decreases i
{
    if i < p.len() && p[i as int].ix() < i { root(p, p[i as int].ix()) } else { i }
}

pub open spec fn same<V: NumericId>(p: Seq<V>, x: nat, y: nat) -> bool {
    root(p, x) == root(p, y)
}

pub proof fn lemma_root_le<V: NumericId>(p: Seq<V>, i: nat)
    ensures root(p, i) <= i,
    decreases i
{
    if i < p.len() && p[i as int].ix() < i { lemma_root_le(p, p[i as int].ix()); }
}

/// The representative is a fixed point: it is its own parent (or outside the table).
pub proof fn lemma_root_fixed<V: NumericId>(p: Seq<V>, i: nat)
    requires wf(p),
    ensures
        root(p, root(p, i)) == root(p, i),
        root(p, i) < p.len() ==> p[root(p, i) as int].ix() == root(p, i),
        i < p.len() ==> root(p, i) < p.len(),
    decreases i
{
    if i < p.len() && p[i as int].ix() < i { lemma_root_fixed(p, p[i as int].ix()); }
}

pub proof fn lemma_self_root<V: NumericId>(p: Seq<V>, i: nat)
    requires wf(p), root(p, i) == i, i < p.len(),
    ensures p[i as int].ix() == i,
{
    if p[i as int].ix() < i { lemma_root_le(p, p[i as int].ix()); }
}

/// Growing the table with self-parented slots changes no root.
pub proof fn lemma_extend<V: NumericId>(p0: Seq<V>, p1: Seq<V>, j: nat)
    requires
        p0.len() <= p1.len(),
        forall|k: int| 0 <= k < p0.len() ==> p1[k] == p0[k],
        forall|k: int| p0.len() <= k < p1.len() ==> (#[trigger] p1[k]).ix() == k,
    ensures root(p1, j) == root(p0, j),
    decreases j
{
    if j < p0.len() && p0[j as int].ix() < j { lemma_extend(p0, p1, p0[j as int].ix()); }
}

/// Re-pointing any number of slots to strictly smaller nodes of the same class changes no root.
/// (path halving, full compression and no compression all satisfy the premise.)
pub proof fn lemma_compress<V: NumericId>(p0: Seq<V>, p1: Seq<V>, j: nat)
    requires
        wf(p0),
        p0.len() == p1.len(),
        forall|k: int| 0 <= k < p0.len() && p1[k] != p0[k] ==> (#[trigger] p1[k]).ix() < k && root(p0, p1[k].ix()) == root(p0, k as nat),
    ensures root(p1, j) == root(p0, j),
    decreases j
{
    if j < p0.len() {
        if p1[j as int] == p0[j as int] {
            if p0[j as int].ix() < j { lemma_compress(p0, p1, p0[j as int].ix()); }
        } else {
            lemma_compress(p0, p1, p1[j as int].ix());
        }
    }
}

pub proof fn lemma_compress_all<V: NumericId>(p0: Seq<V>, p1: Seq<V>)
    requires
        wf(p0),
        p0.len() == p1.len(),
        forall|k: int| 0 <= k < p0.len() && p1[k] != p0[k] ==> (#[trigger] p1[k]).ix() < k && root(p0, p1[k].ix()) == root(p0, k as nat),
    ensures
        wf(p1),
        forall|j: nat| root(p1, j) == root(p0, j),
{
    assert forall|j: nat| root(p1, j) == root(p0, j) by { lemma_compress(p0, p1, j); }
    assert forall|i: int| 0 <= i < p1.len() implies (#[trigger] p1[i]).ix() <= i by {
        if p1[i] != p0[i] { } else { assert(p0[i].ix() <= i); }
    }
}

/// Linking root M under root m < M: exactly the class of M moves to m, everything else stays.
pub proof fn lemma_link<V: NumericId>(p0: Seq<V>, big: int, m: V, j: nat)
    requires
        wf(p0),
        0 <= big < p0.len(),
        m.ix() < big,
        p0[big].ix() == big,
        p0[m.ix() as int].ix() == m.ix(),
    ensures
        root(p0.update(big, m), j) == (if root(p0, j) == big { m.ix() } else { root(p0, j) }),
    decreases j
{
    let p1 = p0.update(big, m);
    if j < p0.len() {
        if j == big {
            assert(p1[j as int].ix() == m.ix());
            lemma_link(p0, big, m, m.ix());
        } else if p0[j as int].ix() < j {
            lemma_link(p0, big, m, p0[j as int].ix());
        }
    }
}

pub proof fn lemma_link_all<V: NumericId>(p0: Seq<V>)
    requires wf(p0),
    ensures
        forall|big: int, m: V, j: nat|
            (0 <= big < p0.len() && m.ix() < big && p0[big].ix() == big && p0[m.ix() as int].ix() == m.ix())
            ==> #[trigger] root(p0.update(big, m), j) == (if root(p0, j) == big { m.ix() } else { root(p0, j) }),
        forall|big: int, m: V| (0 <= big < p0.len() && m.ix() < big) ==> wf(#[trigger] p0.update(big, m)),
        forall|i: nat| root(p0, root(p0, i)) == #[trigger] root(p0, i),
        forall|i: nat| (#[trigger] root(p0, i)) < p0.len() ==> p0[root(p0, i) as int].ix() == root(p0, i),
        forall|i: nat| i < p0.len() ==> (#[trigger] root(p0, i)) < p0.len(),
        forall|i: nat| (#[trigger] root(p0, i)) <= i,
{
    assert forall|big: int, m: V, j: nat|
            (0 <= big < p0.len() && m.ix() < big && p0[big].ix() == big && p0[m.ix() as int].ix() == m.ix())
            implies #[trigger] root(p0.update(big, m), j) == (if root(p0, j) == big { m.ix() } else { root(p0, j) }) by {
        lemma_link(p0, big, m, j);
    }
    assert forall|big: int, m: V| (0 <= big < p0.len() && m.ix() < big) implies wf(#[trigger] p0.update(big, m)) by {
        let p1 = p0.update(big, m);
        assert forall|i: int| 0 <= i < p1.len() implies (#[trigger] p1[i]).ix() <= i by {
            if i != big { assert(p0[i].ix() <= i); }
        }
    }
    assert forall|i: nat| root(p0, root(p0, i)) == #[trigger] root(p0, i) by { lemma_root_fixed(p0, i); }
    assert forall|i: nat| (#[trigger] root(p0, i)) < p0.len() implies p0[root(p0, i) as int].ix() == root(p0, i) by { lemma_root_fixed(p0, i); }
    assert forall|i: nat| i < p0.len() implies (#[trigger] root(p0, i)) < p0.len() by { lemma_root_fixed(p0, i); }
    assert forall|i: nat| (#[trigger] root(p0, i)) <= i by { lemma_root_le(p0, i); }
}

//@ impl union-find/src/lib.rs impl<Value: NumericId> UnionFind<Value>

//@ fn reserve
//@ rewrite R-HOIST 0
//@ at sig
    requires
        wf(old(self).parents@),
        // Vec cannot hold 2^64 elements: for index usize::MAX the real code aborts (capacity overflow)
        v.ix() < usize::MAX,
    ensures
        wf(final(self).parents@),
        final(self).parents@.len() > v.ix(),
        final(self).parents@.len() == (if v.ix() >= old(self).parents@.len() { v.ix() + 1 } else { old(self).parents@.len() }),
        forall|k: int| 0 <= k < old(self).parents@.len() ==> final(self).parents@[k] == old(self).parents@[k],
        forall|k: int| old(self).parents@.len() <= k < final(self).parents@.len() ==> (#[trigger] final(self).parents@[k]).ix() == k,
        forall|j: nat| root(final(self).parents@, j) == root(old(self).parents@, j),
//@ at loop 0 spec
            invariant
                __s0 <= i <= v.ix() + 1,
                v.ix() < usize::MAX,
                self.parents@.len() == i,
                old(self).parents@.len() <= i,
                forall|k: int| 0 <= k < old(self).parents@.len() ==> self.parents@[k] == old(self).parents@[k],
                forall|k: int| old(self).parents@.len() <= k < self.parents@.len() ==> (#[trigger] self.parents@[k]).ix() == k,
//@ at end
        proof {
            assert forall|j: nat| root(self.parents@, j) == root(old(self).parents@, j) by {
                lemma_extend(old(self).parents@, self.parents@, j);
            }
            assert forall|i: int| 0 <= i < self.parents@.len() implies (#[trigger] self.parents@[i]).ix() <= i by {
                if i < old(self).parents@.len() { assert(old(self).parents@[i].ix() <= i); }
            }
        }
//@ end-fn

//@ fn find
//@ ret r
//@ at sig
    requires wf(old(self).parents@), id.ix() < usize::MAX,
    ensures
        r.ix() == root(old(self).parents@, id.ix()),
        wf(final(self).parents@),
        final(self).parents@.len() >= old(self).parents@.len(),
        final(self).parents@.len() > id.ix(),
        forall|j: nat| root(final(self).parents@, j) == root(old(self).parents@, j),
//@ at loop 0 spec
            invariant
                wf(self.parents@),
                cur.ix() < self.parents@.len(),
                self.parents@.len() >= old(self).parents@.len(),
                self.parents@.len() > id.ix(),
                root(self.parents@, cur.ix()) == root(old(self).parents@, id.ix()),
                forall|j: nat| root(self.parents@, j) == root(old(self).parents@, j),
            ensures
                self.parents@[cur.ix() as int].ix() == cur.ix(),
            decreases cur.ix(),
//@ at loop 0 body-start
            let ghost p0 = self.parents@;
            proof { reveal_with_fuel(root, 3); lemma_link_all(p0); }
//@ at loop 0 body-end
            proof { lemma_compress_all(p0, self.parents@); }
//@ at after-loop 0
        proof { reveal_with_fuel(root, 2); }
//@ end-fn

//@ fn find_naive
//@ ret r
//@ at sig
    requires wf(self.parents@),
    ensures r.ix() == root(self.parents@, id.ix()),
//@ at loop 0 spec
            invariant
                wf(self.parents@),
                cur.ix() < self.parents@.len(),
                root(self.parents@, cur.ix()) == root(self.parents@, id.ix()),
            ensures
                self.parents@[cur.ix() as int].ix() == cur.ix(),
            decreases cur.ix(),
//@ end-fn

//@ fn union
//@ ret r
//@ at sig
    requires wf(old(self).parents@), a.ix() < usize::MAX, b.ix() < usize::MAX,
    ensures
        wf(final(self).parents@),
        final(self).parents@.len() >= old(self).parents@.len(),
        final(self).parents@.len() > a.ix() && final(self).parents@.len() > b.ix(),
        ({
            let ra = root(old(self).parents@, a.ix());
            let rb = root(old(self).parents@, b.ix());
            let lo = if ra <= rb { ra } else { rb };
            let hi = if ra <= rb { rb } else { ra };
            &&& (ra != rb ==> r.0.ix() == lo && r.1.ix() == hi)
            &&& (ra == rb ==> r.0.ix() == ra && r.1.ix() == ra)
            &&& forall|j: nat| #[trigger] root(final(self).parents@, j)
                    == (if root(old(self).parents@, j) == hi { lo } else { root(old(self).parents@, j) })
        }),
//@ at tail
        proof { lemma_link_all(self.parents@); }
//@ end-fn

//@ end-impl

} // verus!
fn main() {}
