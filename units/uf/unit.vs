// U-UF: union-find/src/lib.rs  UnionFind::{reserve, union, find, find_naive}
use vstd::prelude::*;
use std::cmp;
use vstd::std_specs::cmp::*;
verus! {
//@ include prelude/numeric_id.vs
broadcast use {nid::ax_id_eq, nid::ax_id_cmp, nid::ax_id_obeys_eq, nid::ax_id_obeys_cmp, nid::ax_id_obeys_partial_cmp, nid::ax_id_partial_cmp};


//@ include units/uf/spec.vs
//@ include units/uf/impl.vs
} // verus!
fn main() {}
