//@ item union-find/src/lib.rs struct UnionFind

//@ impl union-find/src/lib.rs impl<Value: NumericId> UnionFind<Value>

//@ fn reserve
//@ rewrite R-HOIST 0
//@ at sig
    requires
        wf(old(self).parents@),
        // Vec cannot hold 2^64 elements: for index usize::MAX the real code aborts (capacity overflow)
        v.ix() < usize::MAX,
    ensures
        wf(final(self).parents@),
        final(self).parents@.len() > v.ix(),
        final(self).parents@.len() == (if v.ix() >= old(self).parents@.len() { v.ix() + 1 } else { old(self).parents@.len() }),
        forall|k: int| 0 <= k < old(self).parents@.len() ==> final(self).parents@[k] == old(self).parents@[k],
        forall|k: int| old(self).parents@.len() <= k < final(self).parents@.len() ==> (#[trigger] final(self).parents@[k]).ix() == k,
        forall|j: nat| root(final(self).parents@, j) == root(old(self).parents@, j),
//@ at loop 0 spec
            invariant
                __s0 <= i <= v.ix() + 1,
                v.ix() < usize::MAX,
                self.parents@.len() == i,
                old(self).parents@.len() <= i,
                forall|k: int| 0 <= k < old(self).parents@.len() ==> self.parents@[k] == old(self).parents@[k],
                forall|k: int| old(self).parents@.len() <= k < self.parents@.len() ==> (#[trigger] self.parents@[k]).ix() == k,
//@ at end
        proof {
            assert forall|j: nat| root(self.parents@, j) == root(old(self).parents@, j) by {
                lemma_extend(old(self).parents@, self.parents@, j);
            }
            assert forall|i: int| 0 <= i < self.parents@.len() implies (#[trigger] self.parents@[i]).ix() <= i by {
                if i < old(self).parents@.len() { assert(old(self).parents@[i].ix() <= i); }
            }
        }
//@ end-fn

//@ fn find
//@ ret r
//@ at sig
    requires wf(old(self).parents@), id.ix() < usize::MAX,
    ensures
        r.ix() == root(old(self).parents@, id.ix()),
        r.ix() <= id.ix(),
        wf(final(self).parents@),
        final(self).parents@.len() >= old(self).parents@.len(),
        final(self).parents@.len() > id.ix(),
        forall|j: nat| root(final(self).parents@, j) == root(old(self).parents@, j),
//@ at loop 0 spec
            invariant
                wf(self.parents@),
                cur.ix() < self.parents@.len(),
                self.parents@.len() >= old(self).parents@.len(),
                self.parents@.len() > id.ix(),
                root(self.parents@, cur.ix()) == root(old(self).parents@, id.ix()),
                forall|j: nat| root(self.parents@, j) == root(old(self).parents@, j),
            ensures
                self.parents@[cur.ix() as int].ix() == cur.ix(),
            decreases cur.ix(),
//@ at loop 0 body-start
            let ghost p0 = self.parents@;
            proof { reveal_with_fuel(root, 3); lemma_link_all(p0); }
//@ at loop 0 body-end
            proof { lemma_compress_all(p0, self.parents@); }
//@ at after-loop 0
        proof { reveal_with_fuel(root, 2); lemma_root_le(old(self).parents@, id.ix()); }
//@ end-fn

//@ fn find_naive
//@ ret r
//@ at sig
    requires wf(self.parents@),
    ensures r.ix() == root(self.parents@, id.ix()),
//@ at loop 0 spec
            invariant
                wf(self.parents@),
                cur.ix() < self.parents@.len(),
                root(self.parents@, cur.ix()) == root(self.parents@, id.ix()),
            ensures
                self.parents@[cur.ix() as int].ix() == cur.ix(),
            decreases cur.ix(),
//@ end-fn

//@ fn union
//@ ret r
//@ at sig
    requires wf(old(self).parents@), a.ix() < usize::MAX, b.ix() < usize::MAX,
    ensures
        wf(final(self).parents@),
        final(self).parents@.len() >= old(self).parents@.len(),
        final(self).parents@.len() > a.ix() && final(self).parents@.len() > b.ix(),
        ({
            let lo = union_result(old(self).parents@, a.ix(), b.ix()).0;
            let hi = union_result(old(self).parents@, a.ix(), b.ix()).1;
            &&& lo <= hi && hi <= (if a.ix() >= b.ix() { a.ix() } else { b.ix() })
            &&& (lo != hi ==> r.0.ix() == lo && r.1.ix() == hi)
            &&& (lo == hi ==> r.0.ix() == lo && r.1.ix() == lo)
            &&& forall|j: nat| #[trigger] root(final(self).parents@, j)
                    == (if root(old(self).parents@, j) == hi { lo } else { root(old(self).parents@, j) })
        }),
//@ at entry
        proof { lemma_root_le(old(self).parents@, a.ix()); lemma_root_le(old(self).parents@, b.ix()); }
//@ at tail
        proof { lemma_link_all(self.parents@); }
//@ end-fn

//@ fn reset
//@ rewrite R-ITERMUT 0
//@ at sig
        ensures
            final(self).parents@.len() == old(self).parents@.len(),
            forall|i: int| 0 <= i < final(self).parents@.len() ==> (#[trigger] final(self).parents@[i]).ix() == i,
//@ at loop 0 spec
            invariant
                __j0 <= __n0,
                __n0 == self.parents@.len(),
                self.parents@.len() == old(self).parents@.len(),
                forall|k: int| 0 <= k < __j0 ==> (#[trigger] self.parents@[k]).ix() == k,
            decreases __n0 - __j0,
//@ end-fn
//@ end-impl

