// ---------------- abstract view ----------------
pub open spec fn wf<V: NumericId>(p: Seq<V>) -> bool {
    forall|i: int| 0 <= i < p.len() ==> (#[trigger] p[i]).ix() <= i
}

/// root(p, i): follow parents from i. Well-founded because of the min-id discipline (wf).
pub open spec fn root<V: NumericId>(p: Seq<V>, i: nat) -> nat
    decreases i
{
    if i < p.len() && p[i as int].ix() < i { root(p, p[i as int].ix()) } else { i }
}

pub open spec fn same<V: NumericId>(p: Seq<V>, x: nat, y: nat) -> bool {
    root(p, x) == root(p, y)
}

pub proof fn lemma_root_le<V: NumericId>(p: Seq<V>, i: nat)
    ensures root(p, i) <= i,
    decreases i
{
    if i < p.len() && p[i as int].ix() < i { lemma_root_le(p, p[i as int].ix()); }
}

/// The representative is a fixed point: it is its own parent (or outside the table).
pub proof fn lemma_root_fixed<V: NumericId>(p: Seq<V>, i: nat)
    requires wf(p),
    ensures
        root(p, root(p, i)) == root(p, i),
        root(p, i) < p.len() ==> p[root(p, i) as int].ix() == root(p, i),
        i < p.len() ==> root(p, i) < p.len(),
    decreases i
{
    if i < p.len() && p[i as int].ix() < i { lemma_root_fixed(p, p[i as int].ix()); }
}

pub proof fn lemma_self_root<V: NumericId>(p: Seq<V>, i: nat)
    requires wf(p), root(p, i) == i, i < p.len(),
    ensures p[i as int].ix() == i,
{
    if p[i as int].ix() < i { lemma_root_le(p, p[i as int].ix()); }
}

/// Growing the table with self-parented slots changes no root.
pub proof fn lemma_extend<V: NumericId>(p0: Seq<V>, p1: Seq<V>, j: nat)
    requires
        p0.len() <= p1.len(),
        forall|k: int| 0 <= k < p0.len() ==> p1[k] == p0[k],
        forall|k: int| p0.len() <= k < p1.len() ==> (#[trigger] p1[k]).ix() == k,
    ensures root(p1, j) == root(p0, j),
    decreases j
{
    if j < p0.len() && p0[j as int].ix() < j { lemma_extend(p0, p1, p0[j as int].ix()); }
}

/// Re-pointing any number of slots to strictly smaller nodes of the same class changes no root.
/// (path halving, full compression and no compression all satisfy the premise.)
pub proof fn lemma_compress<V: NumericId>(p0: Seq<V>, p1: Seq<V>, j: nat)
    requires
        wf(p0),
        p0.len() == p1.len(),
        forall|k: int| 0 <= k < p0.len() && p1[k] != p0[k] ==> (#[trigger] p1[k]).ix() < k && root(p0, p1[k].ix()) == root(p0, k as nat),
    ensures root(p1, j) == root(p0, j),
    decreases j
{
    if j < p0.len() {
        if p1[j as int] == p0[j as int] {
            if p0[j as int].ix() < j { lemma_compress(p0, p1, p0[j as int].ix()); }
        } else {
            lemma_compress(p0, p1, p1[j as int].ix());
        }
    }
}

pub proof fn lemma_compress_all<V: NumericId>(p0: Seq<V>, p1: Seq<V>)
    requires
        wf(p0),
        p0.len() == p1.len(),
        forall|k: int| 0 <= k < p0.len() && p1[k] != p0[k] ==> (#[trigger] p1[k]).ix() < k && root(p0, p1[k].ix()) == root(p0, k as nat),
    ensures
        wf(p1),
        forall|j: nat| root(p1, j) == root(p0, j),
{
    assert forall|j: nat| root(p1, j) == root(p0, j) by { lemma_compress(p0, p1, j); }
    assert forall|i: int| 0 <= i < p1.len() implies (#[trigger] p1[i]).ix() <= i by {
        if p1[i] != p0[i] { } else { assert(p0[i].ix() <= i); }
    }
}

/// Linking root M under root m < M: exactly the class of M moves to m, everything else stays.
pub proof fn lemma_link<V: NumericId>(p0: Seq<V>, big: int, m: V, j: nat)
    requires
        wf(p0),
        0 <= big < p0.len(),
        m.ix() < big,
        p0[big].ix() == big,
        p0[m.ix() as int].ix() == m.ix(),
    ensures
        root(p0.update(big, m), j) == (if root(p0, j) == big { m.ix() } else { root(p0, j) }),
    decreases j
{
    let p1 = p0.update(big, m);
    if j < p0.len() {
        if j == big {
            assert(p1[j as int].ix() == m.ix());
            lemma_link(p0, big, m, m.ix());
        } else if p0[j as int].ix() < j {
            lemma_link(p0, big, m, p0[j as int].ix());
        }
    }
}

pub proof fn lemma_link_all<V: NumericId>(p0: Seq<V>)
    requires wf(p0),
    ensures
        forall|big: int, m: V, j: nat|
            (0 <= big < p0.len() && m.ix() < big && p0[big].ix() == big && p0[m.ix() as int].ix() == m.ix())
            ==> #[trigger] root(p0.update(big, m), j) == (if root(p0, j) == big { m.ix() } else { root(p0, j) }),
        forall|big: int, m: V| (0 <= big < p0.len() && m.ix() < big) ==> wf(#[trigger] p0.update(big, m)),
        forall|i: nat| root(p0, root(p0, i)) == #[trigger] root(p0, i),
        forall|i: nat| (#[trigger] root(p0, i)) < p0.len() ==> p0[root(p0, i) as int].ix() == root(p0, i),
        forall|i: nat| i < p0.len() ==> (#[trigger] root(p0, i)) < p0.len(),
        forall|i: nat| (#[trigger] root(p0, i)) <= i,
{
    assert forall|big: int, m: V, j: nat|
            (0 <= big < p0.len() && m.ix() < big && p0[big].ix() == big && p0[m.ix() as int].ix() == m.ix())
            implies #[trigger] root(p0.update(big, m), j) == (if root(p0, j) == big { m.ix() } else { root(p0, j) }) by {
        lemma_link(p0, big, m, j);
    }
    assert forall|big: int, m: V| (0 <= big < p0.len() && m.ix() < big) implies wf(#[trigger] p0.update(big, m)) by {
        let p1 = p0.update(big, m);
        assert forall|i: int| 0 <= i < p1.len() implies (#[trigger] p1[i]).ix() <= i by {
            if i != big { assert(p0[i].ix() <= i); }
        }
    }
    assert forall|i: nat| root(p0, root(p0, i)) == #[trigger] root(p0, i) by { lemma_root_fixed(p0, i); }
    assert forall|i: nat| (#[trigger] root(p0, i)) < p0.len() implies p0[root(p0, i) as int].ix() == root(p0, i) by { lemma_root_fixed(p0, i); }
    assert forall|i: nat| i < p0.len() implies (#[trigger] root(p0, i)) < p0.len() by { lemma_root_fixed(p0, i); }
    assert forall|i: nat| (#[trigger] root(p0, i)) <= i by { lemma_root_le(p0, i); }
}

/// what `union(a, b)` returns on a forest p: (representative kept, representative displaced)
pub open spec fn union_result<V: NumericId>(p: Seq<V>, a: nat, b: nat) -> (nat, nat) {
    let ra = root(p, a);
    let rb = root(p, b);
    if ra <= rb { (ra, rb) } else { (rb, ra) }
}

