// ---------------- abstract view ----------------
pub open spec fn wf<V: NumericId>(p: Seq<V>) -> bool {
    forall|i: int| 0 <= i < p.len() ==> (#[trigger] p[i]).ix() <= i
}

/// root(p, i): follow parents from i. Well-founded because of the min-id discipline (wf).
pub open spec fn root<V: NumericId>(p: Seq<V>, i: nat) -> nat
    decreases i
{
    if i < p.len() && p[i as int].ix() < i { root(p, p[i as int].ix()) } else { i }
}

pub open spec fn same<V: NumericId>(p: Seq<V>, x: nat, y: nat) -> bool {
    root(p, x) == root(p, y)
}

pub proof fn lemma_root_le<V: NumericId>(p: Seq<V>, i: nat)
    ensures root(p, i) <= i,
    decreases i
{
    if i < p.len() && p[i as int].ix() < i { lemma_root_le(p, p[i as int].ix()); }
}

/// The representative is a fixed point: it is its own parent (or outside the table).
pub proof fn lemma_root_fixed<V: NumericId>(p: Seq<V>, i: nat)
    requires wf(p),
    ensures
        root(p, root(p, i)) == root(p, i),
        root(p, i) < p.len() ==> p[root(p, i) as int].ix() == root(p, i),
        i < p.len() ==> root(p, i) < p.len(),
    decreases i
{
    if i < p.len() && p[i as int].ix() < i { lemma_root_fixed(p, p[i as int].ix()); }
}

pub proof fn lemma_self_root<V: NumericId>(p: Seq<V>, i: nat)
    requires wf(p), root(p, i) == i, i < p.len(),
    ensures p[i as int].ix() == i,
{
    if p[i as int].ix() < i { lemma_root_le(p, p[i as int].ix()); }
}

/// Growing the table with self-parented slots changes no root.
pub proof fn lemma_extend<V: NumericId>(p0: Seq<V>, p1: Seq<V>, j: nat)
    requires
        p0.len() <= p1.len(),
        forall|k: int| 0 <= k < p0.len() ==> p1[k] == p0[k],
        forall|k: int| p0.len() <= k < p1.len() ==> (#[trigger] p1[k]).ix() == k,
    ensures root(p1, j) == root(p0, j),
    decreases j
{
    if j < p0.len() && p0[j as int].ix() < j { lemma_extend(p0, p1, p0[j as int].ix()); }
}

/// Re-pointing any number of slots to strictly smaller nodes of the same class changes no root.
/// (path halving, full compression and no compression all satisfy the premise.)
pub proof fn lemma_compress<V: NumericId>(p0: Seq<V>, p1: Seq<V>, j: nat)
    requires
        wf(p0),
        p0.len() == p1.len(),
        forall|k: int| 0 <= k < p0.len() && p1[k] != p0[k] ==> (#[trigger] p1[k]).ix() < k && root(p0, p1[k].ix()) == root(p0, k as nat),
    ensures root(p1, j) == root(p0, j),
    decreases j
{
    if j < p0.len() {
        if p1[j as int] == p0[j as int] {
            if p0[j as int].ix() < j { lemma_compress(p0, p1, p0[j as int].ix()); }
        } else {
            lemma_compress(p0, p1, p1[j as int].ix());
        }
    }
}

pub proof fn lemma_compress_all<V: NumericId>(p0: Seq<V>, p1: Seq<V>)
    requires
        wf(p0),
        p0.len() == p1.len(),
        forall|k: int| 0 <= k < p0.len() && p1[k] != p0[k] ==> (#[trigger] p1[k]).ix() < k && root(p0, p1[k].ix()) == root(p0, k as nat),
    ensures
        wf(p1),
        forall|j: nat| root(p1, j) == root(p0, j),
{
    assert forall|j: nat| root(p1, j) == root(p0, j) by { lemma_compress(p0, p1, j); }
    assert forall|i: int| 0 <= i < p1.len() implies (#[trigger] p1[i]).ix() <= i by {
        if p1[i] != p0[i] { } else { assert(p0[i].ix() <= i); }
    }
}

/// Linking root M under root m < M: exactly the class of M moves to m, everything else stays.
pub proof fn lemma_link<V: NumericId>(p0: Seq<V>, big: int, m: V, j: nat)
    requires
        wf(p0),
        0 <= big < p0.len(),
        m.ix() < big,
        p0[big].ix() == big,
        p0[m.ix() as int].ix() == m.ix(),
    ensures
        root(p0.update(big, m), j) == (if root(p0, j) == big { m.ix() } else { root(p0, j) }),
    decreases j
{
    let p1 = p0.update(big, m);
    if j < p0.len() {
        if j == big {
            assert(p1[j as int].ix() == m.ix());
            lemma_link(p0, big, m, m.ix());
        } else if p0[j as int].ix() < j {
            lemma_link(p0, big, m, p0[j as int].ix());
        }
    }
}

pub proof fn lemma_link_all<V: NumericId>(p0: Seq<V>)
    requires wf(p0),
    ensures
        forall|big: int, m: V, j: nat|
            (0 <= big < p0.len() && m.ix() < big && p0[big].ix() == big && p0[m.ix() as int].ix() == m.ix())
            ==> #[trigger] root(p0.update(big, m), j) == (if root(p0, j) == big { m.ix() } else { root(p0, j) }),
        forall|big: int, m: V| (0 <= big < p0.len() && m.ix() < big) ==> wf(#[trigger] p0.update(big, m)),
        forall|i: nat| root(p0, root(p0, i)) == #[trigger] root(p0, i),
        forall|i: nat| (#[trigger] root(p0, i)) < p0.len() ==> p0[root(p0, i) as int].ix() == root(p0, i),
        forall|i: nat| i < p0.len() ==> (#[trigger] root(p0, i)) < p0.len(),
        forall|i: nat| (#[trigger] root(p0, i)) <= i,
{
    assert forall|big: int, m: V, j: nat|
            (0 <= big < p0.len() && m.ix() < big && p0[big].ix() == big && p0[m.ix() as int].ix() == m.ix())
            implies #[trigger] root(p0.update(big, m), j) == (if root(p0, j) == big { m.ix() } else { root(p0, j) }) by {
        lemma_link(p0, big, m, j);
    }
    assert forall|big: int, m: V| (0 <= big < p0.len() && m.ix() < big) implies wf(#[trigger] p0.update(big, m)) by {
        let p1 = p0.update(big, m);
        assert forall|i: int| 0 <= i < p1.len() implies (#[trigger] p1[i]).ix() <= i by {
            if i != big { assert(p0[i].ix() <= i); }
        }
    }
    assert forall|i: nat| root(p0, root(p0, i)) == #[trigger] root(p0, i) by { lemma_root_fixed(p0, i); }
    assert forall|i: nat| (#[trigger] root(p0, i)) < p0.len() implies p0[root(p0, i) as int].ix() == root(p0, i) by { lemma_root_fixed(p0, i); }
    assert forall|i: nat| i < p0.len() implies (#[trigger] root(p0, i)) < p0.len() by { lemma_root_fixed(p0, i); }
    assert forall|i: nat| (#[trigger] root(p0, i)) <= i by { lemma_root_le(p0, i); }
}

/// what `union(a, b)` returns on a forest p: (representative kept, representative displaced)
pub open spec fn union_result<V: NumericId>(p: Seq<V>, a: nat, b: nat) -> (nat, nat) {
    let ra = root(p, a);
    let rb = root(p, b);
    if ra <= rb { (ra, rb) } else { (rb, ra) }
}


// ---------------- "same class iff connected by the unions performed" (C17, C01) ----------------------
/// the effect of one `union(a, b)` on the roots, exactly as in the postcondition of `UnionFind::union`
pub open spec fn union_step<V: NumericId>(p0: Seq<V>, p1: Seq<V>, a: nat, b: nat) -> bool {
    forall|j: nat| #[trigger] root(p1, j) == (if root(p0, j) == union_result(p0, a, b).1 { union_result(p0, a, b).0 } else { root(p0, j) })
}

/// connectivity generated by a history of unions: the reflexive-symmetric-transitive closure, built up
/// one union at a time
pub open spec fn connected(h: Seq<(nat, nat)>, x: nat, y: nat) -> bool
    decreases h.len()
{
    if h.len() == 0 { x == y } else {
        let g = h.drop_last();
        let a = h.last().0;
        let b = h.last().1;
        connected(g, x, y) || (connected(g, x, a) && connected(g, b, y)) || (connected(g, x, b) && connected(g, a, y))
    }
}

pub proof fn lemma_union_step_same<V: NumericId>(p0: Seq<V>, p1: Seq<V>, a: nat, b: nat)
    requires wf(p0), union_step(p0, p1, a, b),
    ensures
        forall|x: nat, y: nat| #[trigger] same(p1, x, y) <==>
            (same(p0, x, y) || (same(p0, x, a) && same(p0, b, y)) || (same(p0, x, b) && same(p0, a, y))),
{
    lemma_root_fixed(p0, a);
    lemma_root_fixed(p0, b);
    assert forall|x: nat, y: nat| #[trigger] same(p1, x, y) <==>
            (same(p0, x, y) || (same(p0, x, a) && same(p0, b, y)) || (same(p0, x, b) && same(p0, a, y))) by {
        assert(root(p1, x) == (if root(p0, x) == union_result(p0, a, b).1 { union_result(p0, a, b).0 } else { root(p0, x) }));
        assert(root(p1, y) == (if root(p0, y) == union_result(p0, a, b).1 { union_result(p0, a, b).0 } else { root(p0, y) }));
    }
}

/// After ANY history of unions starting from singletons, two ids are in the same class exactly when they are
/// connected by the unions performed (`ps` are the successive forests; finds in between change no root).
pub proof fn lemma_same_iff_connected<V: NumericId>(ps: Seq<Seq<V>>, h: Seq<(nat, nat)>)
    requires
        ps.len() == h.len() + 1,
        forall|k: int| 0 <= k < ps.len() ==> wf(#[trigger] ps[k]),
        forall|j: nat| root(ps[0], j) == j,
        forall|k: int| 0 <= k < h.len() ==> union_step(#[trigger] ps[k], ps[k + 1], h[k].0, h[k].1),
    ensures
        forall|x: nat, y: nat| #![trigger same(ps.last(), x, y)] #![trigger connected(h, x, y)] same(ps.last(), x, y) <==> connected(h, x, y),
    decreases h.len()
{
    if h.len() == 0 {
        assert forall|x: nat, y: nat| same(ps.last(), x, y) <==> connected(h, x, y) by {
            assert(root(ps[0], x) == x && root(ps[0], y) == y);
        }
    } else {
        let n = h.len() as int;
        let g = h.drop_last();
        let qs = ps.drop_last();
        assert forall|k: int| 0 <= k < g.len() implies union_step(#[trigger] qs[k], qs[k + 1], g[k].0, g[k].1) by {
            assert(union_step(ps[k], ps[k + 1], h[k].0, h[k].1));
        }
        assert forall|k: int| 0 <= k < qs.len() implies wf(#[trigger] qs[k]) by { assert(wf(ps[k])); }
        lemma_same_iff_connected(qs, g);
        assert(qs.last() == ps[n - 1]);
        assert(union_step(ps[n - 1], ps[n], h[n - 1].0, h[n - 1].1));
        lemma_union_step_same(ps[n - 1], ps[n], h.last().0, h.last().1);
        assert forall|x: nat, y: nat| same(ps.last(), x, y) <==> connected(h, x, y) by {
            let a = h.last().0;
            let b = h.last().1;
            let q = ps[n - 1];
            assert(same(q, x, y) <==> connected(g, x, y));
            assert(same(q, x, a) <==> connected(g, x, a));
            assert(same(q, b, y) <==> connected(g, b, y));
            assert(same(q, x, b) <==> connected(g, x, b));
            assert(same(q, a, y) <==> connected(g, a, y));
            assert(same(ps[n], x, y) <==> (same(ps[n - 1], x, y) || (same(ps[n - 1], x, a) && same(ps[n - 1], b, y)) || (same(ps[n - 1], x, b) && same(ps[n - 1], a, y))));
        }
    }
}

/// The representative of a class is its minimum id: no member of the class is smaller than the root.
pub proof fn lemma_root_is_minimum<V: NumericId>(p: Seq<V>, x: nat, y: nat)
    requires wf(p), same(p, x, y),
    ensures root(p, x) <= y,
{
    lemma_root_le(p, y);
}
