#![feature(allocator_api)]
// U-SWT: core-relations/src/table/mod.rs  SortedWritesTable::{binary_search_sort_val, fast_subset} over the
// `offsets` abstraction (timestamp-ordered scans of C16), OffsetRange::new, Subset::empty
use vstd::prelude::*;
use std::sync::Arc;
use vstd::std_specs::cmp::*;
verus! {
//@ include prelude/numeric_id.vs
//@ include prelude/std_extra.vs
broadcast use {nid::ax_id_eq, nid::ax_id_cmp, nid::ax_id_obeys_eq, nid::ax_id_obeys_cmp, nid::ax_id_obeys_partial_cmp, nid::ax_id_partial_cmp, stdx::ax_iter_seq_vec};
//@ idtype Value RowId ColumnId
//@ idtype64 Generation

// ---- trusted environment ---------------------------------------------------------------------------------
/// the row store: only its length (`next_row`) matters here
#[verifier::external_body]
pub struct Rows { _p: core::marker::PhantomData<u8> }
impl Rows {
    pub uninterp spec fn n_rows(&self) -> nat;
    #[verifier::external_body]
    pub fn next_row(&self) -> (r: RowId) ensures r.ix() == self.n_rows() { unimplemented!() }
}
#[verifier::external_body]
#[verifier::reject_recursive_types(T)]
pub struct Pooled<T> { _p: core::marker::PhantomData<T> }
#[verifier::external_body]
pub struct SortedOffsetVector { _p: core::marker::PhantomData<u8> }

//@ item core-relations/src/table_spec.rs enum Constraint
//@ item core-relations/src/offsets/mod.rs struct OffsetRange
//@ item core-relations/src/offsets/mod.rs enum Subset
//@ item core-relations/src/table/mod.rs struct SortedWritesTable only data sort_by offsets

//@ impl core-relations/src/offsets/mod.rs impl OffsetRange
//@ fn new
//@ ret r
//@ at sig
        // the debug_assert of the real code, as a precondition every caller must establish
        requires start.ix() <= end.ix(),
        ensures r.start == start, r.end == end,
//@ end-fn
//@ end-impl

//@ impl core-relations/src/offsets/mod.rs impl Subset
//@ fn empty
//@ ret r
//@ at sig
        ensures r == Subset::Dense(OffsetRange { start: RowId { rep: 0 }, end: RowId { rep: 0 } }),
//@ end-fn
//@ end-impl

// ---------------- the offsets abstraction ---------------------------------------------------------------------
pub open spec fn dense_has(s: Subset, r: int) -> bool {
    s is Dense && s->Dense_0.start.ix() <= r < s->Dense_0.end.ix()
}

/// the two debug_assert!s of binary_search_sort_val: strictly increasing sort values and row ids; plus:
/// runs start at row 0 and lie inside the table
pub open spec fn offsets_ok(o: Seq<(Value, RowId)>, n_rows: nat) -> bool {
    &&& forall|i: int, j: int| #![trigger o[i], o[j]] 0 <= i < j < o.len() ==> o[i].0.ix() < o[j].0.ix() && o[i].1.ix() < o[j].1.ix()
    &&& (o.len() > 0 ==> o[0].1.ix() == 0)
    &&& forall|i: int| 0 <= i < o.len() ==> (#[trigger] o[i]).1.ix() < n_rows
    &&& (o.len() == 0 ==> n_rows == 0)
}

/// first row of the run after run k
pub open spec fn run_end(o: Seq<(Value, RowId)>, n_rows: nat, k: int) -> nat {
    if k + 1 < o.len() { o[k + 1].1.ix() } else { n_rows }
}

/// index of the run containing row r (-1 if none)
pub open spec fn run_idx(o: Seq<(Value, RowId)>, r: int) -> int
    decreases o.len()
{
    if o.len() == 0 { -1 } else if o.last().1.ix() <= r { o.len() - 1 } else { run_idx(o.drop_last(), r) }
}

/// the sort value (timestamp) of row r under the offsets abstraction
pub open spec fn sort_val(o: Seq<(Value, RowId)>, r: int) -> nat {
    o[run_idx(o, r)].0.ix()
}

pub proof fn lemma_run_idx(o: Seq<(Value, RowId)>, n_rows: nat, r: int, k: int)
    requires offsets_ok(o, n_rows), 0 <= k < o.len(), o[k].1.ix() <= r < run_end(o, n_rows, k),
    ensures run_idx(o, r) == k,
    decreases o.len()
{
    if k == o.len() - 1 {
    } else {
        let g = o.drop_last();
        assert(o[k + 1].1.ix() <= o.last().1.ix()) by {
            if k + 1 < o.len() - 1 { assert(o[k + 1].1.ix() < o[o.len() - 1].1.ix()); }
        }
        assert(offsets_ok(g, o.last().1.ix())) by {
            assert forall|i: int, j: int| #![trigger g[i], g[j]] 0 <= i < j < g.len() implies g[i].0.ix() < g[j].0.ix() && g[i].1.ix() < g[j].1.ix() by {
                assert(g[i] == o[i] && g[j] == o[j]);
            }
            assert forall|i: int| 0 <= i < g.len() implies (#[trigger] g[i]).1.ix() < o.last().1.ix() by {
                assert(g[i] == o[i]);
                assert(o[i].1.ix() < o[o.len() - 1].1.ix());
            }
        }
        assert(run_end(g, o.last().1.ix(), k) == run_end(o, n_rows, k)) by {
            if k + 1 < g.len() { assert(g[k + 1] == o[k + 1]); }
        }
        assert(g[k] == o[k]);
        lemma_run_idx(g, o.last().1.ix(), r, k);
    }
}

/// every row of the table lies in exactly one run, and sort values grow with the run index
pub proof fn lemma_runs_cover(o: Seq<(Value, RowId)>, n_rows: nat, r: int)
    requires offsets_ok(o, n_rows), 0 <= r < n_rows,
    ensures 0 <= run_idx(o, r) < o.len(), o[run_idx(o, r)].1.ix() <= r < run_end(o, n_rows, run_idx(o, r)),
    decreases o.len()
{
    if o.last().1.ix() <= r {
    } else {
        let g = o.drop_last();
        assert(o.len() > 1) by { if o.len() == 1 { assert(o[0].1.ix() == 0); } }
        assert(offsets_ok(g, o.last().1.ix())) by {
            assert forall|i: int, j: int| #![trigger g[i], g[j]] 0 <= i < j < g.len() implies g[i].0.ix() < g[j].0.ix() && g[i].1.ix() < g[j].1.ix() by {
                assert(g[i] == o[i] && g[j] == o[j]);
            }
            assert forall|i: int| 0 <= i < g.len() implies (#[trigger] g[i]).1.ix() < o.last().1.ix() by {
                assert(g[i] == o[i]);
                assert(o[i].1.ix() < o[o.len() - 1].1.ix());
            }
            assert(g[0] == o[0]);
        }
        lemma_runs_cover(g, o.last().1.ix(), r);
        let k = run_idx(g, r);
        assert(g[k] == o[k]);
        assert(run_end(g, o.last().1.ix(), k) == run_end(o, n_rows, k)) by {
            if k + 1 < g.len() { assert(g[k + 1] == o[k + 1]); }
        }
    }
}

/// position of row r relative to run k, read off the sort values
pub proof fn lemma_sort_val_vs_run(o: Seq<(Value, RowId)>, n_rows: nat, r: int, k: int)
    requires offsets_ok(o, n_rows), 0 <= r < n_rows, 0 <= k < o.len(),
    ensures
        (r < o[k].1.ix()) <==> (sort_val(o, r) < o[k].0.ix()),
        (r >= run_end(o, n_rows, k)) <==> (sort_val(o, r) > o[k].0.ix()),
        (o[k].1.ix() <= r < run_end(o, n_rows, k)) <==> (sort_val(o, r) == o[k].0.ix()),
{
    lemma_runs_cover(o, n_rows, r);
    let q = run_idx(o, r);
    if q < k {
        assert(o[q].0.ix() < o[k].0.ix());
        if q + 1 < k { assert(o[q + 1].1.ix() < o[k].1.ix()); }
    } else if q > k {
        assert(o[k].0.ix() < o[q].0.ix());
        if k + 1 < q { assert(o[k + 1].1.ix() < o[q].1.ix()); }
    }
}

impl SortedWritesTable {
    pub open spec fn ok(&self) -> bool { offsets_ok(self.offsets@, self.data.n_rows()) }
}

/// meaning of a comparison constraint on the sort column
pub open spec fn sat_sort(c: Constraint, v: nat) -> bool {
    match c {
        Constraint::Eq { l_col, r_col } => true,
        Constraint::EqConst { col, val } => v == val.ix(),
        Constraint::LtConst { col, val } => v < val.ix(),
        Constraint::GtConst { col, val } => v > val.ix(),
        Constraint::LeConst { col, val } => v <= val.ix(),
        Constraint::GeConst { col, val } => v >= val.ix(),
    }
}

pub open spec fn on_col(c: Constraint, s: ColumnId) -> bool {
    match c {
        Constraint::Eq { l_col, r_col } => false,
        Constraint::EqConst { col, val } => col == s,
        Constraint::LtConst { col, val } => col == s,
        Constraint::GtConst { col, val } => col == s,
        Constraint::LeConst { col, val } => col == s,
        Constraint::GeConst { col, val } => col == s,
    }
}

//@ impl core-relations/src/table/mod.rs impl SortedWritesTable
//@ fn binary_search_sort_val
//@ ret r
//@ rewrite R-CLOSPAT &(Value,RowId) Value &(Value,RowId) RowId &(Value,RowId) RowId
//@ at sig
        requires self.ok(),
        ensures
            match r {
                // run k holds exactly the rows whose sort value is `val`
                Ok((a, b)) => exists|k: int| 0 <= k < self.offsets@.len() && (#[trigger] self.offsets@[k]).0.ix() == val.ix()
                    && a == self.offsets@[k].1 && b.ix() == run_end(self.offsets@, self.data.n_rows(), k),
                // no run has sort value `val`; p is the first row of the first run with a larger value
                Err(p) => exists|j: int| 0 <= j <= self.offsets@.len()
                    && (forall|k: int| 0 <= k < j ==> (#[trigger] self.offsets@[k]).0.ix() < val.ix())
                    && (forall|k: int| j <= k < self.offsets@.len() ==> (#[trigger] self.offsets@[k]).0.ix() > val.ix())
                    && p.ix() == (if j < self.offsets@.len() { self.offsets@[j].1.ix() } else { self.data.n_rows() }),
            },
//@ at entry
        proof {
            assert(self.offsets.len() == self.offsets@.len());
            assert forall|x: int, y: int| 0 <= x <= y < self.offsets@.len() implies (#[trigger] self.offsets@[x]).0.ix() <= (#[trigger] self.offsets@[y]).0.ix() by {
                if x < y { assert(self.offsets@[x].0.ix() < self.offsets@[y].0.ix()); }
            }
        }
//@ at closure 2 spec
            ensures r == __p.0,
//@ at closure 3 spec
            ensures r == __p.1,
//@ at closure 4 spec
            ensures r == __p.1,
//@ end-fn

//@ end-impl

//@ impl core-relations/src/table/mod.rs impl Table for SortedWritesTable => impl SortedWritesTable
//@ fn fast_subset
//@ ret r
//@ at sig
        requires self.ok(),
        ensures
            // an index answer is only given for the sort column, and then it is EXACTLY the rows whose sort
            // value satisfies the constraint (timestamp-ordered range scan)
            r is Some ==> self.sort_by is Some && on_col(*constraint, self.sort_by->Some_0) && r->Some_0 is Dense
                && forall|row: int| 0 <= row < self.data.n_rows() ==> (dense_has(r->Some_0, row) <==> sat_sort(*constraint, sort_val(self.offsets@, row))),
            r is Some ==> forall|row: int| dense_has(r->Some_0, row) ==> 0 <= row < self.data.n_rows(),
//@ at entry
        proof {
            let o = self.offsets@;
            let n = self.data.n_rows();
            assert forall|row: int, k: int| 0 <= row < n && 0 <= k < o.len() implies
                ((row < (#[trigger] o[k]).1.ix()) <==> (#[trigger] sort_val(o, row) < o[k].0.ix()))
                && ((row >= run_end(o, n, k)) <==> (sort_val(o, row) > o[k].0.ix()))
                && ((o[k].1.ix() <= row < run_end(o, n, k)) <==> (sort_val(o, row) == o[k].0.ix())) by {
                lemma_sort_val_vs_run(o, n, row, k);
            }
            assert forall|row: int| 0 <= row < n implies 0 <= #[trigger] run_idx(o, row) < o.len() by {
                lemma_runs_cover(o, n, row);
            }
        }
//@ end-fn
//@ end-impl

// ---------------- maintenance of the offsets abstraction (what the requires `ok()` above rests on) ----------------
/// never returns: models `panic!` / failed `assert!` (partial correctness)
#[verifier::external_body]
pub fn vc_panic() -> (r: bool)
    ensures false
{ unimplemented!() }

//@ item core-relations/src/table/mod.rs struct SortChecker derive Copy,Clone

//@ impl core-relations/src/table/mod.rs impl OrderingChecker for SortChecker => impl SortChecker
//@ fn check_local
//@ rewrite R-ASSERT
//@ at sig
        requires old(self).col.ix() < row@.len(),
        ensures
            final(self).col == old(self).col,
            final(self).baseline == old(self).baseline,
            // every row of one batch carries the same sort value, and it is not below the table's largest one
            final(self).current is Some && final(self).current->Some_0.ix() == row@[old(self).col.ix() as int].ix(),
            old(self).current is Some ==> old(self).current->Some_0.ix() == row@[old(self).col.ix() as int].ix(),
            old(self).current is None && old(self).baseline is Some ==> row@[old(self).col.ix() as int].ix() >= old(self).baseline->Some_0.ix(),
//@ end-fn
//@ fn update_offsets
//@ at sig
        requires
            // `start` = number of rows before the batch was appended
            offsets_ok(old(offsets)@, start.ix()),
            // what check_local established against the baseline (= the last sort value when the batch started)
            self.current is Some && old(offsets)@.len() > 0 ==> self.current->Some_0.ix() >= old(offsets)@.last().0.ix(),
        ensures
            self.current is None ==> final(offsets)@ == old(offsets)@,
            // after a non-empty batch of rows start..n, all with sort value `current`:
            self.current is Some ==> forall|n: nat| n > start.ix() ==> #[trigger] offsets_ok(final(offsets)@, n),
            self.current is Some ==> forall|r: int| r >= start.ix() ==> #[trigger] sort_val(final(offsets)@, r) == self.current->Some_0.ix(),
            self.current is Some ==> forall|r: int| 0 <= r < start.ix() ==> #[trigger] sort_val(final(offsets)@, r) == sort_val(old(offsets)@, r),
//@ at end
        proof {
            let o0 = old(offsets)@;
            let o1 = offsets@;
            if self.current is Some {
                let c = self.current->Some_0;
                if o1 != o0 {
                    assert(o1 == o0.push((c, start)));
                    assert(o1.drop_last() == o0);
                    assert forall|n: nat| n > start.ix() implies #[trigger] offsets_ok(o1, n) by {
                        assert forall|i: int, j: int| #![trigger o1[i], o1[j]] 0 <= i < j < o1.len() implies o1[i].0.ix() < o1[j].0.ix() && o1[i].1.ix() < o1[j].1.ix() by {
                            if j < o0.len() { assert(o0[i].0.ix() < o0[j].0.ix()); } else {
                                assert(o0[i].1.ix() < start.ix());
                                if i < o0.len() - 1 { assert(o0[i].0.ix() < o0[o0.len() - 1].0.ix()); }
                            }
                        }
                        if o0.len() == 0 { assert(start.ix() == 0); }
                    }
                    assert forall|r: int| r >= start.ix() implies #[trigger] sort_val(o1, r) == c.ix() by {}
                    assert forall|r: int| 0 <= r < start.ix() implies #[trigger] sort_val(o1, r) == sort_val(o0, r) by {
                        lemma_runs_cover(o0, start.ix(), r);
                        assert(run_idx(o1, r) == run_idx(o0, r));
                        assert(o1[run_idx(o0, r)] == o0[run_idx(o0, r)]);
                    }
                } else {
                    assert(o0.len() > 0);
                    assert(c.ix() == o0.last().0.ix());
                    assert forall|n: nat| n > start.ix() implies #[trigger] offsets_ok(o1, n) by {}
                    assert forall|r: int| r >= start.ix() implies #[trigger] sort_val(o1, r) == c.ix() by {
                        assert(o0.last().1.ix() < start.ix());
                    }
                }
            }
        }
//@ end-fn
//@ end-impl

} // verus!
fn main() {}
