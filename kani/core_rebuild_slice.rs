//@ crate egglog-core-relations
//@ file core-relations/src/table_spec.rs
//@ harness rebuild_slice_default bounded slice length <= 3 (unwind 5)
// Bounded stand-in for the default body of ValueRebuilder::rebuild_slice (iter_mut: outside the Verus subset;
// its contract is ASSUMED in units/cont/unit.vs): every element is mapped through rebuild_val and the result
// says whether anything changed.
use super::*;

struct AddOne;
impl ValueRebuilder for AddOne {
    fn rebuild_val(&self, val: Value) -> Value {
        // an arbitrary non-identity map with fixed points (even values stay)
        if val.rep() % 2 == 1 { Value::new(val.rep() - 1) } else { val }
    }
}

#[kani::proof]
#[kani::unwind(5)]
fn rebuild_slice_default() {
    let mut a = [Value::new(kani::any()), Value::new(kani::any()), Value::new(kani::any())];
    let old = a;
    let n: usize = kani::any();
    kani::assume(n <= 3);
    let changed = AddOne.rebuild_slice(&mut a[..n]);
    let j: usize = kani::any();
    kani::assume(j < 3);
    if j < n {
        assert!(a[j] == AddOne.rebuild_val(old[j]));
    } else {
        assert!(a[j] == old[j]);
    }
    let any_changed = (n > 0 && AddOne.rebuild_val(old[0]) != old[0])
        || (n > 1 && AddOne.rebuild_val(old[1]) != old[1])
        || (n > 2 && AddOne.rebuild_val(old[2]) != old[2]);
    assert!(changed == any_changed);
}
