//@ crate egglog-numeric-id
//@ file numeric-id/src/lib.rs
//@ harness id_axioms_u32 complete
//@ harness id_axioms_usize complete
// U-ID: discharges, for the real `define_id!` expansion over u32 and for `usize`, the NumericId axioms that
// the Verus preludes assume for a generic Value (prelude/numeric_id.vs): ==, cmp, partial_cmp, <, <=, min, max
// follow the representation; index/from_usize/new/new_const/rep are mutually inverse.
// Loop-free over the full u32 x u32 (resp. usize x usize) domain: complete.
use super::*;
define_id!(pub KId, u32, "kani test id");

#[kani::proof]
fn id_axioms_u32() {
    let a: u32 = kani::any();
    let b: u32 = kani::any();
    let x = KId::new(a);
    let y = KId::new(b);
    assert_eq!(x == y, a == b);
    assert_eq!(x != y, a != b);
    assert_eq!(x.cmp(&y), a.cmp(&b));
    assert_eq!(x.partial_cmp(&y), Some(a.cmp(&b)));
    assert_eq!(x < y, a < b);
    assert_eq!(x <= y, a <= b);
    assert_eq!(x > y, a > b);
    assert_eq!(x >= y, a >= b);
    assert_eq!(x.index(), a as usize);
    assert_eq!(x.rep(), a);
    assert_eq!(std::cmp::min(x, y).rep(), std::cmp::min(a, b));
    assert_eq!(std::cmp::max(x, y).rep(), std::cmp::max(a, b));
    assert_eq!(KId::from_usize(a as usize).rep(), a);
    assert_eq!(KId::new_const(a).rep(), a);
}

#[kani::proof]
fn id_axioms_usize() {
    let a: usize = kani::any();
    let b: usize = kani::any();
    let x = <usize as NumericId>::new(a);
    let y = <usize as NumericId>::from_usize(b);
    assert_eq!(x == y, a == b);
    assert_eq!(x.cmp(&y), a.cmp(&b));
    assert_eq!(NumericId::index(x), a);
    assert_eq!(NumericId::rep(y), b);
    assert_eq!(std::cmp::min(x, y), if a <= b { a } else { b });
    assert_eq!(std::cmp::max(x, y), if a <= b { b } else { a });
}
