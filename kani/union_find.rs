//@ crate egglog-union-find
//@ file union-find/src/lib.rs
//@ harness uf_reset bounded parents.len() <= 4 (unwind 6)
//@ harness uf_find_naive_small bounded forest of <= 4 ids with parents[i] <= i (unwind 6)
// Bounded stand-ins for the sequential union-find: `reset` (iter_mut().enumerate(): outside Verus; its contract is
// ASSUMED in units/uf/impl.vs) and a cross-check of find_naive on small forests.
use super::*;

#[kani::proof]
#[kani::unwind(6)]
fn uf_reset() {
    let n: usize = kani::any();
    kani::assume(n <= 4);
    let mut uf: UnionFind<usize> = UnionFind::default();
    let mut i = 0;
    while i < n {
        let p: usize = kani::any();
        kani::assume(p <= i);
        uf.parents.push(p);
        i += 1;
    }
    uf.reset();
    assert!(uf.parents.len() == n);
    let mut j = 0;
    while j < n {
        assert!(uf.parents[j] == j);
        j += 1;
    }
}

#[kani::proof]
#[kani::unwind(6)]
fn uf_find_naive_small() {
    let n: usize = 4;
    let mut uf: UnionFind<usize> = UnionFind::default();
    let mut i = 0;
    while i < n {
        let p: usize = kani::any();
        kani::assume(p <= i);
        uf.parents.push(p);
        i += 1;
    }
    let x: usize = kani::any();
    kani::assume(x < n);
    let r = uf.find_naive(x);
    // the representative is a fixed point, not larger than x, and find_naive is idempotent
    assert!(r <= x);
    assert!(uf.parents[r] == r);
    assert!(uf.find_naive(r) == r);
}
