//@ crate egglog-core-relations
//@ file core-relations/src/offsets/mod.rs
//@ harness offsets_intersect_dense_dense complete
//@ harness offsets_scan_for_offset bounded sorted slice of <= 4 row ids strictly increasing over a 6-value domain (unwind 7)
//@ harness offsets_binary_search_from bounded sorted slice of <= 4 row ids strictly increasing over a 6-value domain (unwind 7)
// U-OFF (Kani only: the functions are unsafe/closure code Verus rejects): the Dense x Dense arm of
// Subset::intersect is loop-free over all u32 bounds (complete); the
// galloping search and binary_search_from are bounded stand-ins.
use super::*;

fn r(x: u32) -> RowId {
    RowId::new(x)
}

#[kani::proof]
fn offsets_intersect_dense_dense() {
    let (a, b, c, d): (u32, u32, u32, u32) = (kani::any(), kani::any(), kani::any(), kani::any());
    kani::assume(a <= b && c <= d);
    let pool: Pool<SortedOffsetVector> = Pool::default();
    let mut s = Subset::Dense(OffsetRange::new(r(a), r(b)));
    s.intersect(SubsetRef::Dense(OffsetRange::new(r(c), r(d))), &pool);
    let x: u32 = kani::any();
    match s {
        Subset::Dense(o) => {
            assert!(o.start <= o.end);
            let inside = o.start.rep() <= x && x < o.end.rep();
            assert!(inside == (a <= x && x < b && c <= x && x < d));
        }
        Subset::Sparse(_) => assert!(false),
    }
}

fn sorted4() -> ([RowId; 4], usize) {
    let v: [u32; 4] = kani::any();
    // a subset is a SET of row ids: strictly increasing (binary_search_from's backward scan over duplicates of
    // the target may step below `start` when such duplicates precede `start`; no caller can produce that)
    kani::assume(v[0] < v[1] && v[1] < v[2] && v[2] < v[3] && v[3] < 6);
    let n: usize = kani::any();
    kani::assume(n <= 4);
    ([r(v[0]), r(v[1]), r(v[2]), r(v[3])], n)
}

#[kani::proof]
#[kani::unwind(7)]
fn offsets_scan_for_offset() {
    let (a, n) = sorted4();
    let s = unsafe { SortedOffsetSlice::new_unchecked(&a[..n]) };
    let start: usize = kani::any();
    kani::assume(start <= n);
    let t: u32 = kani::any();
    kani::assume(t < 6);
    match s.scan_for_offset(start, r(t)) {
        Ok(i) => {
            // first index >= start holding t
            assert!(start <= i && i < n && a[i] == r(t));
            assert!(i == start || a[i - 1] != r(t));
        }
        Err(i) => {
            // partition point: nothing in start..n equals t, everything before i (from start) is < t, from i on > t
            assert!(start <= i || start >= n);
            assert!(i <= n);
            let j: usize = kani::any();
            kani::assume(start <= j && j < n);
            assert!(a[j] != r(t));
            if j < i { assert!(a[j] < r(t)); } else { assert!(a[j] > r(t)); }
        }
    }
}

#[kani::proof]
#[kani::unwind(7)]
fn offsets_binary_search_from() {
    let (a, n) = sorted4();
    let s = unsafe { SortedOffsetSlice::new_unchecked(&a[..n]) };
    let start: usize = kani::any();
    kani::assume(start <= n);
    let t: u32 = kani::any();
    kani::assume(t < 6);
    let i = s.binary_search_from(start, r(t));
    // first index >= start whose element is >= t (or n)
    assert!(start <= i && i <= n);
    let j: usize = kani::any();
    kani::assume(start <= j && j < n);
    if j < i { assert!(a[j] < r(t)); } else { assert!(a[j] >= r(t)); }
}
