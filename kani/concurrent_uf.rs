//@ crate egglog-union-find
//@ file union-find/src/concurrent/uf.rs
//@ harness cuf_find_impl_sequential bounded 4 AtomicU32 slots with parents[i] <= i, single thread (unwind 6)
// U-CUF: sequential semantics ONLY of the concurrent union-find's find_impl (path splitting) on a 4-slot
// forest: returns the root, keeps every root (the partition) unchanged. No interleavings are explored: Kani
// has no thread support; linearizability is NOT checked.
use super::*;
use std::sync::atomic::AtomicU32;

fn root_of(p: &[u32; 4], mut x: u32) -> u32 {
    let mut k = 0;
    while k < 4 {
        let n = p[x as usize];
        if n == x {
            return x;
        }
        x = n;
        k += 1;
    }
    x
}

#[kani::proof]
#[kani::unwind(6)]
fn cuf_find_impl_sequential() {
    let p: [u32; 4] = kani::any();
    kani::assume(p[0] == 0 && p[1] <= 1 && p[2] <= 2 && p[3] <= 3);
    let buf = [AtomicU32::new(p[0]), AtomicU32::new(p[1]), AtomicU32::new(p[2]), AtomicU32::new(p[3])];
    let x: u32 = kani::any();
    kani::assume(x < 4);
    let r = ConcurrentUnionFind::<AtomicU32>::find_impl(&buf, x);
    assert!(r == root_of(&p, x));
    let q = [
        AtomicInt::load(&buf[0]),
        AtomicInt::load(&buf[1]),
        AtomicInt::load(&buf[2]),
        AtomicInt::load(&buf[3]),
    ];
    let y: u32 = kani::any();
    kani::assume(y < 4);
    assert!(q[y as usize] <= y);
    assert!(root_of(&q, y) == root_of(&p, y));
}
