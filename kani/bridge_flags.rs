//@ crate egglog-bridge
//@ file egglog-bridge/src/lib.rs
//@ harness combine_subsumed_algebra complete
//@ harness schema_math_layout complete
//@ harness incremental_rebuild_monotone complete
//@ harness write_table_row_vec bounded func_cols <= 2, initial row length <= 3 (unwind 5)
// U-MIN/U-MERGE (Kani side): combine_subsumed over all u32 pairs/triples (= max: commutative, associative,
// idempotent; SUBSUMED absorbs), the SchemaMath column arithmetic over all usize, and a bounded stand-in
// for SchemaMath::write_table_row (whose contract is ASSUMED in units/merge/unit.vs).
use super::*;

#[kani::proof]
fn combine_subsumed_algebra() {
    let a = Value::new(kani::any());
    let b = Value::new(kani::any());
    let c = Value::new(kani::any());
    let m = combine_subsumed(a, b);
    assert!(m.rep() == std::cmp::max(a.rep(), b.rep()));
    assert!(combine_subsumed(b, a) == m);
    assert!(combine_subsumed(a, a) == a);
    assert!(combine_subsumed(combine_subsumed(a, b), c) == combine_subsumed(a, combine_subsumed(b, c)));
    assert!(SUBSUMED.rep() == 1 && NOT_SUBSUMED.rep() == 0);
    if a.rep() <= 1 && b.rep() <= 1 {
        assert!((m == SUBSUMED) == (a == SUBSUMED || b == SUBSUMED));
    }
}

#[kani::proof]
fn schema_math_layout() {
    let sm = SchemaMath { subsume: kani::any(), func_cols: kani::any() };
    kani::assume(sm.func_cols >= 1 && sm.func_cols <= usize::MAX - 2);
    assert!(sm.num_keys() == sm.func_cols - 1);
    assert!(sm.ret_val_col() == sm.func_cols - 1);
    assert!(sm.ts_col() == sm.func_cols);
    assert!(sm.ret_val_col() < sm.ts_col() && sm.ts_col() < sm.table_columns());
    assert!(sm.ret_val_col() >= sm.num_keys());
    if sm.subsume {
        assert!(sm.subsume_col() == sm.func_cols + 1);
        assert!(sm.subsume_col() < sm.table_columns());
        assert!(sm.table_columns() == sm.func_cols + 2);
    } else {
        assert!(sm.table_columns() == sm.func_cols + 1);
    }
}

#[kani::proof]
fn incremental_rebuild_monotone() {
    let uf: usize = kani::any();
    let uf2: usize = kani::any();
    let t: usize = kani::any();
    let par: bool = kani::any();
    // a smaller union-find delta never switches from incremental to non-incremental
    if uf2 <= uf && incremental_rebuild(uf, t, par) {
        assert!(incremental_rebuild(uf2, t, par));
    }
}

#[kani::proof]
#[kani::unwind(5)]
fn write_table_row_vec() {
    let sm = SchemaMath { subsume: kani::any(), func_cols: kani::any() };
    kani::assume(sm.func_cols >= 1 && sm.func_cols <= 2);
    let src = [Value::new(kani::any()), Value::new(kani::any()), Value::new(kani::any())];
    let n: usize = kani::any();
    kani::assume(n <= 3);
    let mut row: Vec<Value> = src[..n].to_vec();
    let ts = Value::new(kani::any());
    let rv: Option<Value> = if kani::any() { Some(Value::new(kani::any())) } else { None };
    let sub: Option<Value> = if sm.subsume { Some(Value::new(kani::any())) } else { None };
    sm.write_table_row(&mut row, RowVals { timestamp: ts, subsume: sub, ret_val: rv });
    let cols = sm.func_cols + 1 + if sm.subsume { 1 } else { 0 };
    assert!(row.len() == cols);
    let j: usize = kani::any();
    kani::assume(j < cols);
    let want = if j == sm.func_cols {
        ts
    } else if j == sm.func_cols - 1 && rv.is_some() {
        rv.unwrap()
    } else if j == sm.func_cols + 1 && sub.is_some() {
        sub.unwrap()
    } else if j < n {
        src[j]
    } else {
        ts
    };
    assert!(row[j] == want);
}
