// ---- prelude/bridge.vs : trusted environment of egglog-bridge's EGraph driver functions ----------
// Stub types with the names the real code uses; inherent methods shadow the engine's methods.
// Every `external_body` function below is an ASSUMED contract (ledger A-db / A-exec / A-hash).

//@ idtype Value Timestamp TableId CounterId RuleId FunctionId ColumnId ExternalFunctionId

/// stands for the unverified remainder of a function cut by R-CUTTAIL: it must be unreachable.
#[verifier::external_body]
pub fn vc_unreachable<T>() -> T
    requires false
{ unimplemented!() }

pub mod anyhow {
    use vstd::prelude::*;
    verus! {
    #[verifier::external_body]
    pub struct Error { _p: core::marker::PhantomData<u8> }
    }
    impl std::fmt::Debug for Error {
        fn fmt(&self, _f: &mut std::fmt::Formatter<'_>) -> std::fmt::Result { Ok(()) }
    }
}
pub type Result<T> = std::result::Result<T, anyhow::Error>;

pub struct PanicError(pub String);
impl PanicError {
    #[verifier::external_body]
    pub fn into(self) -> anyhow::Error { unimplemented!() }
}

pub mod egglog_concurrency {
    use vstd::prelude::*;
    verus! {
    #[verifier::external_body]
    pub fn current_num_threads() -> usize { unimplemented!() }
    }
}

pub struct Duration { pub nanos: u64 }
impl Duration {
    pub const ZERO: Duration = Duration { nanos: 0 };
}
#[verifier::external_body]
pub struct Instant { _p: core::marker::PhantomData<u8> }
impl Instant {
    #[verifier::external_body]
    pub fn now() -> Instant { unimplemented!() }
    #[verifier::external_body]
    pub fn elapsed(&self) -> Duration { unimplemented!() }
}

#[verifier::external_body]
pub struct CtxStub { _p: core::marker::PhantomData<u8> }
pub type ExternalContext<'a> = Option<&'a CtxStub>;

#[derive(Clone, Copy)]
pub enum ReportLevel { TimeOnly, WithPlan, StageInfo }

/// `Arc<Mutex<Option<T>>>` side channel: lock().unwrap().take() yields an arbitrary Option<T>
#[verifier::external_body]
#[verifier::reject_recursive_types(T)]
pub struct SideChannel<T> { _p: core::marker::PhantomData<T> }
#[verifier::external_body]
#[verifier::reject_recursive_types(T)]
pub struct SideLock<T> { _p: core::marker::PhantomData<T> }
impl<T> SideChannel<T> {
    #[verifier::external_body]
    pub fn lock(&self) -> SideLock<T> { unimplemented!() }
}
impl<T> SideLock<T> {
    #[verifier::external_body]
    pub fn unwrap(self) -> SideLock<T> { unimplemented!() }
    #[verifier::external_body]
    pub fn take(self) -> Option<T> { unimplemented!() }
    // a peek at the channel that is not spelled as R-SIDECHAN's read: its result is unconstrained
    #[verifier::external_body]
    pub fn is_some(&self) -> bool { unimplemented!() }
    #[verifier::external_body]
    pub fn is_none(&self) -> bool { unimplemented!() }
}

/// R-SIDECHAN: the read of the panic side channel, `self.panic_message.lock().unwrap().take()`. The channel is written by
/// merge functions running inside the database, so its content is modelled as ghost state of the Database
/// (`panic_pending`): the read returns the message iff one is pending and empties the channel; nothing else changes.
#[verifier::external_body]
pub fn vc_take_panic(chan: &SideChannel<String>, db: &mut Database) -> (r: Option<String>)
    ensures
        r is Some <==> old(db).panic_pending(),
        !final(db).panic_pending(),
        final(db).same_but_panic(old(db)),
{ unimplemented!() }

// ------------------------------------------------------------------------------------------------
// core_relations::Database, reduced to the ghost observers the driver's correctness argument needs.

#[verifier::external_body]
pub struct Database { _p: core::marker::PhantomData<u8> }

#[verifier::external_body]
pub struct WrappedTable { _p: core::marker::PhantomData<u8> }
#[verifier::external_body]
pub struct Rebuilder { _p: core::marker::PhantomData<u8> }
#[verifier::external_body]
pub struct RuleSet { _p: core::marker::PhantomData<u8> }
#[verifier::external_body]
pub struct RuleSetReport { _p: core::marker::PhantomData<u8> }
impl RuleSetReport {
    pub uninterp spec fn changed_spec(&self) -> bool;
}

#[verifier::external_body]
pub struct ContainerRebuildSummary { _p: core::marker::PhantomData<u8> }
#[verifier::external_body]
pub struct DirtyIds { _p: core::marker::PhantomData<u8> }
impl Default for ContainerRebuildSummary {
    // the real type derives Default: nothing changed, no dirty ids
    #[verifier::external_body]
    fn default() -> (r: Self)
        ensures !r.changed_spec(), r.dirty_spec() == Seq::<Value>::empty()
    { unimplemented!() }
}
impl ContainerRebuildSummary {
    pub uninterp spec fn changed_spec(&self) -> bool;
    pub uninterp spec fn dirty_spec(&self) -> Seq<Value>;
    #[verifier::external_body]
    pub fn changed(&self) -> (r: bool) ensures r == self.changed_spec() { unimplemented!() }
    #[verifier::external_body]
    pub fn dirty_ids(&self) -> (r: DirtyIds) ensures r.view() == self.dirty_spec() { unimplemented!() }
}
impl DirtyIds {
    pub uninterp spec fn view(&self) -> Seq<Value>;
    // `.iter().copied().collect()` : the ids, in the set's iteration order
    #[verifier::external_body]
    pub fn iter(self) -> (r: DirtyIds) ensures r.view() == self.view() { unimplemented!() }
    #[verifier::external_body]
    pub fn copied(self) -> (r: DirtyIds) ensures r.view() == self.view() { unimplemented!() }
    #[verifier::external_body]
    pub fn collect(self) -> (r: Vec<Value>) ensures r@ == self.view() { unimplemented!() }
}

//@ idtype RowId
pub type Pooled<T> = T;
//@ item core-relations/src/table_spec.rs struct Row

impl WrappedTable {
    pub uninterp spec fn len_spec(&self) -> nat;
    pub uninterp spec fn native_rebuild(&self) -> bool;
    /// for the union-find table: the canonical id of v (column 1 of the row of a displaced id)
    pub uninterp spec fn canon(&self, v: Value) -> Value;
    // A-db: DisplacedTable::get_row: a row [k, canonical id of k, timestamp] exists exactly for displaced ids; a missing row
    // means k is canonical. PROVED for the real function in unit disp (get_row contract, invariant `exactly the non-canonical ids`);
    // assumed here only because the bridge sees the table through `dyn Table`
    #[verifier::external_body]
    pub fn get_row(&self, key: &[Value]) -> (r: Option<Row>)
        requires key@.len() == 1,
        ensures match r {
            Some(row) => row.vals@.len() == 3 && row.vals@[0] == key@[0] && row.vals@[1] == self.canon(key@[0]),
            None => self.canon(key@[0]) == key@[0],
        }
    { unimplemented!() }
    #[verifier::external_body]
    pub fn len(&self) -> (r: usize) ensures r == self.len_spec() { unimplemented!() }
    #[verifier::external_body]
    pub fn rebuilder(&self, cols: &[ColumnId]) -> (r: Option<Rebuilder>)
        ensures r.is_some() == self.native_rebuild()
    { unimplemented!() }
}

impl Database {
    /// the union-find (DisplacedTable) of this database
    pub uninterp spec fn uf(&self) -> TableId;
    pub uninterp spec fn table_len(&self, t: TableId) -> nat;
    /// canonical id of v according to the union-find table
    pub uninterp spec fn canon(&self, v: Value) -> Value;
    pub uninterp spec fn counter(&self, c: CounterId) -> nat;
    /// every row of the given tables mentions canonical ids only and keys are unique (per-pass result of apply_rebuild)
    pub uninterp spec fn canon_tables(&self, tables: Seq<TableId>) -> bool;
    /// every container is stored in canonical form and hash-consed
    pub uninterp spec fn canon_containers(&self) -> bool;
    /// rebuild-pass protocol: 0 = idle, 1 = containers rebuilt, 2 = tables rebuilt, 3 = rows refreshed
    pub uninterp spec fn phase(&self) -> int;
    pub uninterp spec fn last_dirty(&self) -> Seq<Value>;
    pub uninterp spec fn last_ts(&self) -> Value;
    pub uninterp spec fn last_tables(&self) -> Seq<TableId>;
    /// ghost history: for every rule set run so far, the mid-timestamps its rule variants were built with
    pub uninterp spec fn ran(&self) -> Seq<Seq<Timestamp>>;

    pub open spec fn uf_len(&self) -> nat { self.table_len(self.uf()) }

    /// a merge function of this database has recorded a panic message in the bridge's side channel (the panic
    /// functions are external functions registered in the database; they write `Arc<Mutex<Option<String>>>`) and nobody
    /// has read it yet. Any operation that can run merge functions may raise it; see R-SIDECHAN / vc_take_panic.
    pub uninterp spec fn panic_pending(&self) -> bool;
    /// everything but the pending-panic flag is the same
    pub open spec fn same_but_panic(&self, o: &Database) -> bool {
        &&& self.same_frame(o)
        &&& forall|t: TableId| #[trigger] self.table_len(t) == o.table_len(t)
        &&& forall|v: Value| #[trigger] self.canon(v) == o.canon(v)
        &&& forall|ts: Seq<TableId>| #[trigger] self.canon_tables(ts) == o.canon_tables(ts)
        &&& self.canon_containers() == o.canon_containers()
        &&& self.phase() == o.phase() && self.last_dirty() == o.last_dirty() && self.last_ts() == o.last_ts() && self.last_tables() == o.last_tables()
        &&& self.ran() == o.ran()
    }

    pub open spec fn canonical(&self, tables: Seq<TableId>) -> bool {
        self.canon_tables(tables) && self.canon_containers()
    }

    /// frame: the things no rebuild / merge step changes
    pub open spec fn same_frame(&self, o: &Database) -> bool {
        &&& self.uf() == o.uf()
        &&& forall|c: CounterId| self.counter(c) == o.counter(c)
    }

    #[verifier::external_body]
    pub fn get_table(&self, id: TableId) -> (r: &WrappedTable)
        ensures
            r.len_spec() == self.table_len(id),
            id == self.uf() ==> r.native_rebuild(),
            id == self.uf() ==> forall|v: Value| #[trigger] r.canon(v) == self.canon(v),
    { unimplemented!() }

    #[verifier::external_body]
    pub fn read_counter(&self, c: CounterId) -> (r: usize)
        ensures r == self.counter(c)
    { unimplemented!() }

    #[verifier::external_body]
    pub fn inc_counter(&mut self, c: CounterId) -> (r: usize)
        ensures
            r == old(self).counter(c),
            final(self).counter(c) == old(self).counter(c) + 1,
            forall|d: CounterId| d != c ==> final(self).counter(d) == old(self).counter(d),
            final(self).uf() == old(self).uf(),
            forall|t: TableId| final(self).table_len(t) == old(self).table_len(t),
            forall|ts: Seq<TableId>| final(self).canon_tables(ts) == old(self).canon_tables(ts),
            final(self).canon_containers() == old(self).canon_containers(),
            final(self).phase() == 0,
            final(self).panic_pending() == old(self).panic_pending(),
    { unimplemented!() }

    // A-db: merging staged updates keeps a canonical database canonical unless the union-find grew.
    #[verifier::external_body]
    pub fn merge_all(&mut self) -> (r: bool)
        ensures
            final(self).same_frame(old(self)),
            final(self).uf_len() >= old(self).uf_len(),
            forall|ts: Seq<TableId>| old(self).canonical(ts) && final(self).uf_len() == old(self).uf_len() ==> final(self).canonical(ts),
    { unimplemented!() }

    #[verifier::external_body]
    pub fn new_rule_set(&mut self) -> (r: RuleSetBuilder)
        ensures
            final(self).same_frame(old(self)),
            forall|t: TableId| final(self).table_len(t) == old(self).table_len(t),
            forall|ts: Seq<TableId>| final(self).canonical(ts) == old(self).canonical(ts),
            final(self).ran() == old(self).ran(),
            final(self).panic_pending() == old(self).panic_pending(),
            r.log() == Seq::<AddRuleCall>::empty(),
            r.mids() == Seq::<Timestamp>::empty(),
    { unimplemented!() }

    // A-db: running a rule set (queries, staged actions, merge) keeps a canonical database canonical
    // unless the union-find grew.
    #[verifier::external_body]
    pub fn run_rule_set(&mut self, rs: &RuleSet, level: ReportLevel, context: ExternalContext<'_>) -> (r: RuleSetReport)
        ensures
            final(self).ran() == old(self).ran().push(rs.mids()),
            final(self).same_frame(old(self)),
            final(self).uf_len() >= old(self).uf_len(),
            forall|ts: Seq<TableId>| old(self).canonical(ts) && final(self).uf_len() == old(self).uf_len() ==> final(self).canonical(ts),
    { unimplemented!() }

    // A-db: one container rebuild pass; "nothing changed" means every container is canonical.
    #[verifier::external_body]
    pub fn rebuild_containers(&mut self, uf: TableId) -> (r: ContainerRebuildSummary)
        requires uf == old(self).uf(),
        ensures
            final(self).same_frame(old(self)),
            final(self).phase() == 1,
            final(self).last_dirty() == r.dirty_spec(),
            !r.changed_spec() ==> final(self).canon_containers(),
    { unimplemented!() }

    // A-db: one table rebuild pass over `tables` (Canonicalizer + SortedWritesTable::do_rebuild);
    // "nothing changed" means every row of those tables was already canonical. Must follow the
    // container rebuild of the same pass.
    #[verifier::external_body]
    pub fn apply_rebuild(&mut self, uf: TableId, tables: &[TableId], next_ts: Value) -> (r: bool)
        requires uf == old(self).uf(), old(self).phase() == 1,
        ensures
            final(self).same_frame(old(self)),
            final(self).phase() == 2,
            final(self).last_dirty() == old(self).last_dirty(),
            final(self).last_ts() == next_ts,
            final(self).last_tables() == tables@,
            !r ==> final(self).canon_tables(tables@) && final(self).canon_containers() == old(self).canon_containers(),
    { unimplemented!() }

    // A-db: re-timestamp the rows that mention the ids whose containers changed in this pass.
    #[verifier::external_body]
    pub fn refresh_rows_for_values(&mut self, tables: &[TableId], dirty: &[Value], next_ts: Value) -> (r: bool)
        requires
            old(self).phase() == 2,
            tables@ == old(self).last_tables(),
            dirty@ == old(self).last_dirty(),
            next_ts == old(self).last_ts(),
        ensures
            final(self).same_frame(old(self)),
            final(self).phase() == 3,
            !r ==> (forall|ts: Seq<TableId>| final(self).canon_tables(ts) == old(self).canon_tables(ts))
                && final(self).canon_containers() == old(self).canon_containers(),
    { unimplemented!() }
}

// ------------------------------------------------------------------------------------------------
// rule-set builder: ghost log of the rules added (used by U-SEMI)

pub struct AddRuleCall { pub plan: int, pub constraints: Seq<(AtomId, Constraint)> }

//@ idtype AtomId

pub enum Constraint {
    Eq { l: ColumnId, r: ColumnId },
    EqConst { col: ColumnId, val: Value },
    LtConst { col: ColumnId, val: Value },
    GtConst { col: ColumnId, val: Value },
    LeConst { col: ColumnId, val: Value },
    GeConst { col: ColumnId, val: Value },
}

#[verifier::external_body]
pub struct RuleSetBuilder { _p: core::marker::PhantomData<u8> }
impl RuleSetBuilder {
    pub uninterp spec fn log(&self) -> Seq<AddRuleCall>;
    /// mid-timestamps of the `Query::add_rules_from_cached` calls made on this builder, in order
    pub uninterp spec fn mids(&self) -> Seq<Timestamp>;
    #[verifier::external_body]
    pub fn build(self) -> (r: RuleSet) ensures r.mids() == self.mids() { unimplemented!() }
}
impl RuleSet {
    pub uninterp spec fn mids(&self) -> Seq<Timestamp>;
}
