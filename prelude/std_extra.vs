// ---- prelude/std_extra.vs : assumed specifications of std functions vstd does not cover (A-std) ----
pub mod stdx {
use vstd::prelude::*;
use vstd::std_specs::cmp::*;
/// The sequence of items an `IntoIterator` value yields (uninterpreted; pinned for Vec below).
pub uninterp spec fn iter_seq<I: IntoIterator>(i: I) -> Seq<I::Item>;

// A-std: Vec::extend appends the items of the argument in order.
pub assume_specification<T, A: std::alloc::Allocator, I: IntoIterator<Item = T>>[ <Vec<T, A> as Extend<T>>::extend ](v: &mut Vec<T, A>, i: I)
    ensures final(v)@ == old(v)@ + iter_seq(i);

pub broadcast axiom fn ax_iter_seq_vec<T>(v: Vec<T>)
    ensures #[trigger] iter_seq(v) == v@;

/// `keys` are the results of the key closure `f` on the elements of `s`
pub open spec fn is_keys<'a, T: 'a, B, F: FnMut(&'a T) -> B>(s: Seq<T>, f: F, keys: Seq<B>) -> bool {
    keys.len() == s.len()
    && forall|j: int| #![trigger keys[j]] #![trigger s[j]] 0 <= j < s.len() ==> f.ensures((&s[j],), keys[j])
}

pub open spec fn keys_sorted<B: Ord>(keys: Seq<B>) -> bool {
    forall|x: int, y: int| #![trigger keys[x], keys[y]] 0 <= x <= y < keys.len() ==> keys[x].cmp_spec(&keys[y]) != core::cmp::Ordering::Greater
}

// A-std: [T]::binary_search_by_key, for a key closure that is a total function of the element. On a slice
// sorted by the key: Ok(i) => key(i) == b; Err(i) => i is the partition point (keys before are smaller,
// keys from i on are greater).
pub assume_specification<'a, T, B: Ord, F: FnMut(&'a T) -> B>[ <[T]>::binary_search_by_key ](s: &'a [T], b: &B, f: F) -> (r: Result<usize, usize>)
    ensures
        B::obeys_cmp_spec() ==> exists|keys: Seq<B>| #[trigger] is_keys(s@, f, keys) && (keys_sorted(keys) ==> match r {
            Ok(i) => i < s@.len() && keys[i as int].cmp_spec(b) == core::cmp::Ordering::Equal,
            Err(i) => i <= s@.len()
                && (forall|j: int| 0 <= j < i ==> (#[trigger] keys[j]).cmp_spec(b) == core::cmp::Ordering::Less)
                && (forall|j: int| i <= j < s@.len() ==> (#[trigger] keys[j]).cmp_spec(b) == core::cmp::Ordering::Greater),
        });

// A-std: bool::then_some
pub assume_specification<T>[ bool::then_some::<T> ](b: bool, t: T) -> (r: Option<T>)
    ensures r == (if b { Some(t) } else { None::<T> });

// A-std: Option::is_some_and (the closure is a total function of the element)
pub assume_specification<T, F: FnOnce(T) -> bool>[ Option::<T>::is_some_and ](o: Option<T>, f: F) -> (r: bool)
    ensures
        o is None ==> !r,
        o is Some ==> f.ensures((o->Some_0,), r);

// A-std: slice::from_ref
pub assume_specification<T>[ core::slice::from_ref::<T> ](t: &T) -> (r: &[T])
    ensures r@ == seq![*t];

/// the value `Default::default()` yields for T (uninterpreted; pinned for bool below)
pub uninterp spec fn default_of<T>() -> T;
// A-std: core::mem::take
pub assume_specification<T: Default>[ core::mem::take::<T> ](x: &mut T) -> (r: T)
    ensures r == *old(x), *final(x) == default_of::<T>();
pub broadcast axiom fn ax_default_bool()
    ensures #[trigger] default_of::<bool>() == false;
} // mod stdx
use stdx::*;
