// ---- prelude/std_extra.vs : assumed specifications of std functions vstd does not cover (A-std) ----
pub mod stdx {
use vstd::prelude::*;
/// The sequence of items an `IntoIterator` value yields (uninterpreted; pinned for Vec below).
pub uninterp spec fn iter_seq<I: IntoIterator>(i: I) -> Seq<I::Item>;

// A-std: Vec::extend appends the items of the argument in order.
pub assume_specification<T, A: std::alloc::Allocator, I: IntoIterator<Item = T>>[ <Vec<T, A> as Extend<T>>::extend ](v: &mut Vec<T, A>, i: I)
    ensures final(v)@ == old(v)@ + iter_seq(i);

pub broadcast axiom fn ax_iter_seq_vec<T>(v: Vec<T>)
    ensures #[trigger] iter_seq(v) == v@;
} // mod stdx
use stdx::*;
broadcast use stdx::ax_iter_seq_vec;
