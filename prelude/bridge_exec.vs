// ---- prelude/bridge_exec.vs : core_relations::ExecutionState as a ghost log (A-exec) ------------
/// never returns: models `panic!` / failed `assert!` (partial correctness)
#[verifier::external_body]
pub fn vc_panic() -> (r: bool)
    ensures false
{ unimplemented!() }

pub struct StagedRow { pub table: TableId, pub row: Seq<Value> }
pub struct ExtCall { pub func: ExternalFunctionId, pub args: Seq<Value> }
/// canonical form of an argument list inside the ghost log (avoids a second level of extensionality)
pub open spec fn norm_args(s: Seq<Value>) -> Seq<Value> { if s.len() == 0 { Seq::empty() } else { s } }

/// A-exec: results of external functions (primitives, panic functions) as a function of id and arguments
pub uninterp spec fn ext_fn(f: ExternalFunctionId, args: Seq<Value>) -> Option<Value>;

#[verifier::external_body]
pub struct ExecutionState { _p: core::marker::PhantomData<u8> }
impl ExecutionState {
    /// rows staged for insertion, in order
    pub uninterp spec fn staged(&self) -> Seq<StagedRow>;
    /// external function invocations, in order
    pub uninterp spec fn calls(&self) -> Seq<ExtCall>;
    pub uninterp spec fn counter(&self, c: CounterId) -> nat;

    #[verifier::external_body]
    pub fn stage_insert(&mut self, table: TableId, row: &[Value])
        ensures
            final(self).staged() == old(self).staged().push(StagedRow { table: table, row: row@ }),
            final(self).calls() == old(self).calls(),
            forall|c: CounterId| final(self).counter(c) == old(self).counter(c),
    { unimplemented!() }

    #[verifier::external_body]
    pub fn call_external_func(&mut self, f: ExternalFunctionId, args: &[Value]) -> (r: Option<Value>)
        ensures
            r == ext_fn(f, args@),
            final(self).calls() == old(self).calls().push(ExtCall { func: f, args: norm_args(args@) }),
            final(self).staged() == old(self).staged(),
            forall|c: CounterId| final(self).counter(c) == old(self).counter(c),
    { unimplemented!() }

    #[verifier::external_body]
    pub fn read_counter(&self, c: CounterId) -> (r: usize)
        ensures r == self.counter(c)
    { unimplemented!() }
}
