// ---- prelude/numeric_id.vs : trusted environment for `egglog_numeric_id::NumericId` -----------
// The real trait (numeric-id/src/lib.rs) is redeclared with a ghost index `ix` and the axioms
// that every `define_id!` newtype and `usize` satisfy. The axioms are ASSUMED here for a generic
// `Value` (ledger A-id) and discharged for the concrete newtypes by the Kani unit U-ID.
pub mod nid {
use vstd::prelude::*;
use vstd::std_specs::cmp::*;
pub trait NumericId: Copy + Clone + PartialEq + Eq + PartialOrd + Ord + Sized {
    spec fn ix(self) -> nat;

    // A-id: from_usize panics (assert!) when the index does not fit the representation; if it
    // returns, the result has that index.
    fn from_usize(index: usize) -> (r: Self)
        ensures r.ix() == index;

    fn index(self) -> (r: usize)
        ensures r == self.ix();
}

// A-id: `==`, `cmp` of an id type are those of its index; ids with the same index are the same id.
pub broadcast axiom fn ax_id_obeys_eq<V: NumericId>()
    ensures #[trigger] V::obeys_eq_spec();

pub broadcast axiom fn ax_id_obeys_cmp<V: NumericId>()
    ensures #[trigger] V::obeys_cmp_spec();

pub broadcast axiom fn ax_id_obeys_partial_cmp<V: NumericId>()
    ensures #[trigger] V::obeys_partial_cmp_spec();

// A-id: `<`, `<=`, `>`, `>=` of an id type are those of its index
pub broadcast axiom fn ax_id_partial_cmp<V: NumericId>(a: V, b: V)
    ensures
        (#[trigger] a.partial_cmp_spec(&b)) == Some(if a.ix() < b.ix() { core::cmp::Ordering::Less } else if a.ix() == b.ix() { core::cmp::Ordering::Equal } else { core::cmp::Ordering::Greater });

pub broadcast axiom fn ax_id_eq<V: NumericId>(a: V, b: V)
    ensures
        (#[trigger] a.eq_spec(&b)) <==> (a.ix() == b.ix()),
        (a == b) <==> a.ix() == b.ix();

pub open spec fn id_min<V: NumericId>(a: V, b: V) -> V {
    if a.ix() <= b.ix() { a } else { b }
}

pub open spec fn id_max<V: NumericId>(a: V, b: V) -> V {
    if a.ix() <= b.ix() { b } else { a }
}

// A-std: core::cmp::{min,max} on any Ord type, phrased over vstd's OrdSpec (min returns `a` unless
// b < a; max returns `b` unless b < a -- as in core).
pub assume_specification<T: Ord>[ core::cmp::min::<T> ](a: T, b: T) -> (r: T)
    ensures T::obeys_cmp_spec() ==> r == (if b.cmp_spec(&a) == core::cmp::Ordering::Less { b } else { a });

pub assume_specification<T: Ord>[ core::cmp::max::<T> ](a: T, b: T) -> (r: T)
    ensures T::obeys_cmp_spec() ==> r == (if b.cmp_spec(&a) == core::cmp::Ordering::Less { a } else { b });

// A-id: the order of an id type is the order of its index.
pub broadcast axiom fn ax_id_cmp<V: NumericId>(a: V, b: V)
    ensures
        (#[trigger] a.cmp_spec(&b)) == (if a.ix() < b.ix() { core::cmp::Ordering::Less } else if a.ix() == b.ix() { core::cmp::Ordering::Equal } else { core::cmp::Ordering::Greater });

} // mod nid
use nid::*;
