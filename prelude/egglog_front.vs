// ---- prelude/egglog_front.vs : trusted environment of `egglog::EGraph::{run_schedule, run_rules}` ----
// Stub types with the names the real code uses. Every method here is an ASSUMED contract (A-step).

/// Abstract state of the whole e-graph (database + union-find + timestamps + rules).
#[verifier::external_body]
pub struct St { _p: core::marker::PhantomData<u8> }

#[verifier::external_body]
pub struct Span { _p: core::marker::PhantomData<u8> }
impl Clone for Span {
    #[verifier::external_body]
    fn clone(&self) -> Self { unimplemented!() }
}
#[verifier::external_body]
pub struct ResolvedCall { _p: core::marker::PhantomData<u8> }
#[verifier::external_body]
pub struct ResolvedVar { _p: core::marker::PhantomData<u8> }
#[verifier::external_body]
#[verifier::accept_recursive_types(H)]
#[verifier::accept_recursive_types(L)]
pub struct GenericFact<H, L> { _p: core::marker::PhantomData<(H, L)> }
pub type ResolvedFact = GenericFact<ResolvedCall, ResolvedVar>;

pub enum Error {
    NoSuchRuleset(String, Span),
    BackendError(String),
    CheckError(Span),
}

#[verifier::external_body]
#[verifier::reject_recursive_types(K)]
#[verifier::reject_recursive_types(V)]
pub struct IndexMap<K, V> { _p: core::marker::PhantomData<(K, V)> }
impl<V> IndexMap<String, V> {
    pub uninterp spec fn has(&self, k: Seq<char>) -> bool;
    #[verifier::external_body]
    pub fn contains_key(&self, k: &String) -> (r: bool)
        ensures r == self.has(k@)
    { unimplemented!() }
}
#[verifier::external_body]
pub struct Ruleset { _p: core::marker::PhantomData<u8> }
#[verifier::external_body]
pub struct IterationReport { _p: core::marker::PhantomData<u8> }
#[verifier::external_body]
pub struct Duration { _p: core::marker::PhantomData<u8> }
#[verifier::external_body]
#[verifier::reject_recursive_types(K)]
#[verifier::reject_recursive_types(V)]
pub struct HashMap<K, V> { _p: core::marker::PhantomData<(K, V)> }
impl<K, V> HashMap<K, V> {
    #[verifier::external_body]
    pub fn default() -> Self { unimplemented!() }
}

/// One rule-set iteration as a function of the abstract state (A-step): the state it produces and
/// whether the database changed (`RuleSetReport.changed`, i.e. `IterationReport::changed()`).
pub uninterp spec fn step_state(s: St, ruleset: Seq<char>) -> St;
pub uninterp spec fn step_updated(s: St, ruleset: Seq<char>) -> bool;
/// `:until` facts hold in a state (what `check_facts` decides).
pub uninterp spec fn holds(s: St, facts: Seq<ResolvedFact>) -> bool;

pub struct EGraph {
    pub rulesets: IndexMap<String, Ruleset>,
    pub st: Ghost<St>,
}

pub struct Flags { pub updated: bool, pub can_stop: bool, pub iters: nat }

pub open spec fn flags(r: RunReport) -> Flags {
    Flags { updated: r.updated, can_stop: r.can_stop, iters: r.iterations@.len() }
}

impl EGraph {
    // A-step: `step_rules` = collect the rule ids of the (possibly combined) ruleset, run one backend
    // iteration, wrap it with RunReport::singleton (updated = iteration.changed(), can_stop = !updated,
    // one IterationReport). Panics (index) when the ruleset does not exist.
    #[verifier::external_body]
    pub fn step_rules(&mut self, ruleset: &str) -> (r: Result<RunReport, Error>)
        requires old(self).rulesets.has(ruleset@),
        ensures
            final(self).rulesets == old(self).rulesets,
            r is Ok ==> final(self).st@ == step_state(old(self).st@, ruleset@)
                && flags(r->Ok_0) == (Flags { updated: step_updated(old(self).st@, ruleset@), can_stop: !step_updated(old(self).st@, ruleset@), iters: 1 }),
    { unimplemented!() }

    // A-step: `check_facts` runs a throw-away query rule; it does not change the abstract state.
    #[verifier::external_body]
    pub fn check_facts(&mut self, span: &Span, facts: &[ResolvedFact]) -> (r: Result<(), Error>)
        ensures
            final(self).rulesets == old(self).rulesets,
            final(self).st@ == old(self).st@,
            r is Ok <==> holds(old(self).st@, facts@),
    { unimplemented!() }
}

impl RunReport {
    // timing/count maps are outside the property: assumed to touch nothing else (they take the maps only)
    #[verifier::external_body]
    fn union_times(times: &mut HashMap<Arc<str>, Duration>, other_times: HashMap<Arc<str>, Duration>) { unimplemented!() }
    #[verifier::external_body]
    fn union_counts(counts: &mut HashMap<Arc<str>, usize>, other_counts: HashMap<Arc<str>, usize>) { unimplemented!() }
}
