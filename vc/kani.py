"""Kani back end: function harnesses appended to a scratch copy of the real crate.

A harness file /verif/kani/<name>.rs starts with metadata lines:
    //@ crate <cargo package>
    //@ file <repo file the module is appended to>        (so it can see private items)
    //@ harness <fn name> complete                         loop-free, full domain  => counts as proof
    //@ harness <fn name> bounded <description of bound>   unwound / small domain   => bounded stand-in only
    //@ flags <extra cargo-kani flags>
The rest of the file is the body of `#[cfg(kani)] mod verif_kani { ... }`.
Every run is wrapped in `ulimit -v` (16 GB) and a timeout; exceeding either, a compiler crash or an
unwinding-assertion failure is UNDECIDED, never a pass and never an alarm.
"""
import os
import re
import shutil
import subprocess
import time

VERIF = os.path.dirname(os.path.dirname(os.path.abspath(__file__)))
REPO = os.environ.get('VERIF_REPO', '/repo')
MEM_KB = int(os.environ.get('VERIF_KANI_MEM_KB', '16000000'))
TIMEOUT = int(os.environ.get('VERIF_KANI_TIMEOUT', '1800'))


def parse_meta(path):
    meta = dict(crate=None, file=None, harnesses={}, flags=[])
    body = []
    for l in open(path).read().split('\n'):
        m = re.match(r'\s*//@\s*(\w+)\s*(.*)$', l)
        if m:
            k, v = m.group(1), m.group(2).strip()
            if k == 'crate':
                meta['crate'] = v
            elif k == 'file':
                meta['file'] = v
            elif k == 'flags':
                meta['flags'] += v.split()
            elif k == 'harness':
                w = v.split(None, 2)
                meta['harnesses'][w[0]] = dict(complete=(w[1] == 'complete'), bound=(w[2] if len(w) > 2 else None))
            continue
        body.append(l)
    meta['body'] = '\n'.join(body)
    return meta


def find_harness(name):
    d = os.path.join(VERIF, 'kani')
    for f in sorted(os.listdir(d)):
        if f.endswith('.rs'):
            meta = parse_meta(os.path.join(d, f))
            if name in meta['harnesses']:
                return f, meta
    return None, None


def scratch_repo(base):
    # fixed location (guarded by a lock in run_harnesses) so that cargo's fingerprints stay valid between runs
    d = os.environ.get('VERIF_KANI_SCRATCH', '/var/tmp/verif-kani-repo')
    os.makedirs(d, exist_ok=True)
    subprocess.run(['rsync', '-a', '--delete', '--exclude', 'target', '--exclude', '.git', REPO + '/', d + '/'], check=True)
    return d


def run_harnesses(names):
    import fcntl
    os.makedirs('/var/tmp', exist_ok=True)
    with open('/var/tmp/verif-kani.lock', 'w') as lk:
        fcntl.flock(lk, fcntl.LOCK_EX)
        try:
            return _run_harnesses(names)
        finally:
            shutil.rmtree(os.environ.get('VERIF_KANI_SCRATCH', '/var/tmp/verif-kani-repo'), ignore_errors=True)
            fcntl.flock(lk, fcntl.LOCK_UN)


def _run_harnesses(names):
    import runner as R
    base = R.workdir()
    results = []
    by_file = {}
    for n in names:
        f, meta = find_harness(n)
        if f is None:
            results.append(dict(harness=n, status='undecided', reason='no such harness file', complete=False))
            continue
        by_file.setdefault(f, (meta, []))[1].append(n)
    if not by_file:
        return results
    try:
        d = scratch_repo(base)
    except Exception as e:
        return results + [dict(harness=n, status='undecided', reason=f'cannot copy repo: {e}', complete=False) for f in by_file for n in by_file[f][1]]
    for f, (meta, hs) in by_file.items():
        target = os.path.join(d, meta['file'])
        try:
            with open(target, 'a') as out:
                out.write('\n#[cfg(kani)]\nmod verif_kani {\n' + meta['body'] + '\n}\n')
        except OSError as e:
            for n in hs:
                results.append(dict(harness=n, status='undecided', reason=f'lost anchor: {e}', complete=meta['harnesses'][n]['complete']))
            continue
    env = dict(os.environ)
    env['CARGO_NET_OFFLINE'] = 'true'
    env['CARGO_TARGET_DIR'] = os.path.join(VERIF, '.cache', 'kani-target')
    for f, (meta, hs) in by_file.items():
        for n in hs:
            h = meta['harnesses'][n]
            t0 = time.time()
            cmd = ['cargo', 'kani', '-p', meta['crate'], '--harness', n] + meta['flags']
            shell = f'ulimit -v {MEM_KB}; exec timeout {TIMEOUT} ' + ' '.join(cmd)
            res = dict(harness=n, complete=h['complete'], bound=h['bound'], cmd=' '.join(cmd) + f'   (kani/{f} appended to a scratch copy of {meta["file"]})',
                       status='undecided', reason='', checks=0, output='')
            try:
                p = subprocess.run(['bash', '-c', shell], cwd=d, capture_output=True, text=True, env=env, timeout=TIMEOUT + 60)
                out = p.stdout + p.stderr
            except subprocess.TimeoutExpired:
                res['reason'] = 'timeout'
                res['wall_s'] = round(time.time() - t0, 1)
                results.append(res)
                continue
            res['wall_s'] = round(time.time() - t0, 1)
            m = re.search(r'\*\* (\d+) of (\d+) failed', out)
            if m:
                res['checks'] = int(m.group(2))
            failed = re.findall(r'Check \d+: (\S+)\n\s+- Status: FAILURE\n\s+- Description: "([^"]*)"\n\s+- Location: ([^\n]*)', out)
            res['output'] = out[-3000:]
            if 'VERIFICATION:- SUCCESSFUL' in out and m and int(m.group(1)) == 0:
                res['status'] = 'ok'
            elif 'VERIFICATION:- FAILED' in out:
                real = [x for x in failed if 'unwinding assertion' not in x[1]]
                unwind = [x for x in failed if 'unwinding assertion' in x[1]]
                if real:
                    res['status'] = 'violation'
                    res['reason'] = '; '.join(f'{x[1]} @ {x[2]}' for x in real[:3])
                    res['spans'] = [dict(label='failed check', primary=True, gen_line=0, origin=x[2], text=x[1]) for x in real[:5]]
                    tr = re.search(r'(Failed Checks:.*)', out, re.S)
                    if tr:
                        res['output'] = tr.group(1)[:3000]
                elif unwind:
                    res['reason'] = 'unwinding bound too small: ' + unwind[0][2]
                else:
                    res['reason'] = 'verification failed without an identifiable failed check'
            elif p.returncode == 124:
                res['reason'] = f'timeout ({TIMEOUT}s)'
            elif 'internal compiler error' in out or 'panicked at' in out:
                res['reason'] = 'kani compiler crash (ICE)'
            elif 'memory' in out.lower() and 'alloc' in out.lower():
                res['reason'] = 'memory cap'
            else:
                tail = [l for l in out.strip().split('\n') if l.strip()][-3:]
                res['reason'] = 'kani did not finish: ' + ' | '.join(tail)[:300]
            results.append(res)
    return results


if __name__ == '__main__':
    import sys
    import json
    sys.path.insert(0, os.path.dirname(os.path.abspath(__file__)))
    import runner as R
    rs = run_harnesses(sys.argv[1:])
    for r in rs:
        r.pop('output', None)
    print(json.dumps(rs, indent=1))
    R.cleanup_workdir()
