"""Replay search: try to exhibit a failed obligation as a concrete failing input on the REAL code.

The search never decides anything (only the verifier's verdict does); it only upgrades a VIOLATION
line from `no-failing-input-found` to one with a concrete input, and lets `--replay` re-execute it.

Two kinds of replays:
  * scripted egglog sessions (`.egg` files written to pass iff the property holds), run with the
    egglog binary built from /repo's working tree;
  * harness crates under /verif/replays/<name>/ that path-depend on /repo crates and enumerate small
    inputs against the executable form of a unit's postconditions (exit 1 + `FAILING-INPUT: ...`).
"""
import json
import os
import subprocess
import time

VERIF = os.path.dirname(os.path.dirname(os.path.abspath(__file__)))
REPO = os.environ.get('VERIF_REPO', '/repo')

# unit -> function -> list of replays
REGISTRY = {
    # pseudo-unit: SortedWritesTable / Database through the public API against a keyed-map model (C16 thorough tier only)
    'tableapi': {'*': [dict(kind='harness', name='table_api'), dict(kind='harness', name='disp_clear')]},
    # pseudo-unit: table collision paths that no verifier reaches (C05 thorough tier only)
    'tablepaths': {'*': [dict(kind='egg', file='replays/findings/f2_parallel_insert_drops_merge.egg', args=('-j', '4'), env={'EGGLOG_PARALLEL_TABLE_OP_CUTOFF': '0'}),
                         dict(kind='egg', file='replays/findings/f2_parallel_insert_drops_merge.egg', args=('-j', '1'))]},
    'cont': {'*': [dict(kind='egg', file='replays/cont/nested_containers.egg'), dict(kind='egg', file='replays/cont/nested_containers.egg', args=('--naive',)),
                   dict(kind='egg', file='replays/cont/incremental_container_rebuild.egg'),
                   dict(kind='egg', file='replays/cont/map_keys_of_container_sort.egg'),
                   dict(kind='egg', file='replays/cont/container_element_positions.egg'),
                   dict(kind='egg', file='replays/cont/merged_container_parent_refresh.egg'),
                   dict(kind='egg', file='replays/cont/merged_container_parent_refresh.egg', args=('-j', '4')),
                   dict(kind='egg', file='replays/cont/nested_containers.egg', args=('-j', '4'))]},
    'sched': {'*': [dict(kind='egg', file='replays/sched/schedules.egg'), dict(kind='egg', file='replays/sched/nested_repeat.egg'), dict(kind='egg', file='replays/sched/zero_count.egg')]},
    'merge': {'*': [dict(kind='egg', file='replays/merge/merge_and_subsume.egg'), dict(kind='egg', file='replays/merge/subsumed_relation_row.egg'),
                    dict(kind='egg', file='replays/merge/parallel_in_batch_merge.egg', args=('-j', '4'), env={'EGGLOG_PARALLEL_TABLE_OP_CUTOFF': '0'}),
                    dict(kind='egg', file='replays/merge/extract_skips_subsumed.egg', forbid_out='(Mul (Var "a") (Num 2))', require_out='(Shl (Var "a") (Num 1))')]},
    'semi': {'*': [dict(kind='egg', file='replays/semi/seminaive.egg'), dict(kind='egg', file='replays/semi/seminaive.egg', args=('--naive',)),
                   dict(kind='egg', file='replays/semi/nullary_delta.egg'), dict(kind='egg', file='replays/semi/nullary_delta.egg', args=('--naive',))]},
    'uf': {'*': [dict(kind='harness', name='uf_partition')]},
    'swt': {'*': [dict(kind='harness', name='table_api')]},
    'insert': {'*': [dict(kind='egg', file='replays/merge/merge_and_subsume.egg'),
                     dict(kind='egg', file='replays/merge/parallel_in_batch_merge.egg', args=('-j', '4'), env={'EGGLOG_PARALLEL_TABLE_OP_CUTOFF': '0'}),
                     dict(kind='harness', name='table_api')]},
    'disp': {
        'clear': [dict(kind='harness', name='disp_clear')],
    },
    # pseudo-unit: subsume actions in rule heads (bridge RuleBuilder::subsume; no verifier reaches it), C13 thorough tier only (F5)
    'subsumehead': {'*': [dict(kind='egg', file='replays/findings/f5_subsume_new_row_in_same_head.egg')]},
    # pseudo-unit: the Rust API write path (EGraph::update -> bridge flush_updates), C05 thorough tier only (F4)
    'apiupdate': {'*': [dict(kind='harness', name='update_nomerge')]},
    'driver': {'flush_updates_inner': [dict(kind='harness', name='update_nomerge')], '*': [dict(kind='egg', file='replays/driver/nomerge_conflict_by_union.egg'), dict(kind='egg', file='replays/driver/panic_during_rebuild_fixpoint.egg'), dict(kind='egg', file='replays/driver/wide_constructor_congruence.egg'), dict(kind='egg', file='replays/driver/panic_before_rebuild.egg'), dict(kind='egg', file='replays/semi/seminaive.egg'),
                     dict(kind='egg', file='replays/driver/parallel_rebuild_every_row.egg', args=('-j', '4'), env={'EGGLOG_PARALLEL_REBUILD_CUTOFF': '1000'}),
                     dict(kind='egg', file='replays/driver/parallel_rebuild_every_row.egg')]},
}


def _env():
    e = dict(os.environ)
    e['CARGO_NET_OFFLINE'] = 'true'
    return e


def build_egglog(timeout):
    t0 = time.time()
    p = subprocess.run(['cargo', 'build', '--offline', '--bin', 'egglog'], cwd=REPO, capture_output=True, text=True,
                       timeout=timeout, env=_env())
    if p.returncode != 0:
        return None, f'cargo build failed: {p.stderr[-400:]}'
    return os.path.join(REPO, 'target', 'debug', 'egglog'), f'built in {time.time() - t0:.0f}s'


def run_egg(binary, path, timeout=60, args=(), forbid_out=None, require_out=None, env=None):
    e2 = _env()
    e2.update(env or {})
    p = subprocess.run([binary, *args, path], capture_output=True, text=True, timeout=timeout, env=e2)
    rc = p.returncode
    if rc == 0 and forbid_out and forbid_out in p.stdout:
        return 1, f'forbidden output `{forbid_out}` printed:\n' + p.stdout[-1200:]
    if rc == 0 and require_out and require_out not in p.stdout:
        return 1, f'expected output `{require_out}` missing:\n' + p.stdout[-1200:]
    return rc, (p.stdout + p.stderr)[-1500:]


def run_harness(name, timeout):
    import shutil, tempfile
    src = os.path.join(VERIF, 'replays', name)
    base = os.environ.get('VERIF_WORK') or f'/var/tmp/verif-work/{os.getpid()}'
    d = os.path.join(base, 'replay-' + name)
    shutil.rmtree(d, ignore_errors=True)
    shutil.copytree(src, d)
    with open(os.path.join(d, 'Cargo.toml'), 'w') as f:
        f.write(open(os.path.join(src, 'Cargo.toml.tmpl')).read().replace('@REPO@', REPO))
    try:
        shutil.copy(os.path.join(REPO, 'Cargo.lock'), os.path.join(d, 'Cargo.lock'))
    except OSError:
        pass
    env = _env()
    env['CARGO_TARGET_DIR'] = os.path.join(VERIF, '.cache', 'replay-target')
    env['VERIF_REPO'] = REPO
    p = subprocess.run(['cargo', 'run', '--offline', '--release', '--quiet'], cwd=d, capture_output=True, text=True, timeout=timeout, env=env)
    return p.returncode, (p.stdout + p.stderr)[-3000:]


def search(unit, fn, tier):
    budget = 1800 if tier == 'thorough' else 900
    entries = REGISTRY.get(unit, {}).get(fn.replace('__canary_', ''), []) + REGISTRY.get(unit, {}).get('*', [])
    if not entries:
        return dict(found=False, note='no replay harness registered for this function')
    notes = []
    binary = None
    for e in entries:
        try:
            if e['kind'] == 'egg':
                if binary is None:
                    binary, note = build_egglog(budget)
                    notes.append(note)
                    if binary is None:
                        continue
                path = os.path.join(VERIF, e['file'])
                rc, out = run_egg(binary, path, args=e.get('args', ()), forbid_out=e.get('forbid_out'), require_out=e.get('require_out'), env=e.get('env'))
                if rc != 0:
                    return dict(found=True, kind='egg', input=open(path).read(), file=path, args=list(e.get('args', ())),
                                observed=out, note='; '.join(notes),
                                how=f'cd {REPO} && cargo build --offline --bin egglog && target/debug/egglog {" ".join(e.get("args", ()))} {path}   (exits non-zero while the defect is present)')
                notes.append(f'{e["file"]}: passes')
            elif e['kind'] == 'harness':
                rc, out = run_harness(e['name'], budget)
                if rc == 1 and 'FAILING-INPUT' in out:
                    line = [l for l in out.split('\n') if 'FAILING-INPUT' in l][0]
                    return dict(found=True, kind='harness', name=e['name'], input=line, observed=out, note='; '.join(notes),
                                how=f'cd {VERIF}/replays/{e["name"]} && VERIF_REPO={REPO} cargo run --offline --release')
                notes.append(f'harness {e["name"]}: rc={rc} {out[-200:] if rc not in (0, 1) else "no failing input in the enumerated space"}')
        except subprocess.TimeoutExpired:
            notes.append(f'{e}: timeout')
    return dict(found=False, note='; '.join(notes))


def rerun(body):
    rp = body['replay']
    if rp.get('kind') == 'egg':
        binary, note = build_egglog(600)
        if binary is None:
            print(note)
            return 2
        rc, out = run_egg(binary, rp['file'], args=rp.get('args', ()))
        print(out)
        print('replay: the failing input still fails' if rc != 0 else 'replay: the input passes on the current tree')
        return 1 if rc != 0 else 0
    if rp.get('kind') == 'harness':
        rc, out = run_harness(rp['name'], 600)
        print(out)
        return 1 if rc == 1 else (0 if rc == 0 else 2)
    return 2


def run_all(units, tier='thorough'):
    """Thorough tier: execute every registered replay of the given units on the current tree.
    Returns a list of dicts(unit, what, passed, observed, how). Dynamic, NOT proof."""
    out = []
    binary = None
    seen = set()
    for u in units:
        for fn, entries in REGISTRY.get(u, {}).items():
            if fn != '*':
                continue    # function-specific entries serve the replay search of a failed obligation only
            for e in entries:
                key = json.dumps(e, sort_keys=True)
                if key in seen:
                    continue
                seen.add(key)
                try:
                    if e['kind'] == 'egg':
                        if binary is None:
                            binary, note = build_egglog(3600)
                            if binary is None:
                                out.append(dict(unit=u, what=e['file'], passed=None, observed=note, how=''))
                                continue
                        path = os.path.join(VERIF, e['file'])
                        rc, o = run_egg(binary, path, timeout=600, args=e.get('args', ()), forbid_out=e.get('forbid_out'), require_out=e.get('require_out'), env=e.get('env'))
                        out.append(dict(unit=u, what=e['file'] + ' ' + ' '.join(e.get('args', ())), passed=(rc == 0), observed=o[-800:], kind='egg', file=path, args=list(e.get('args', ())),
                                        how=f'cd {REPO} && cargo build --offline --bin egglog && {" ".join(k + "=" + v for k, v in (e.get("env") or {}).items())} target/debug/egglog {" ".join(e.get("args", ()))} {path}'))
                    elif e['kind'] == 'harness':
                        rc, o = run_harness(e['name'], 3600)
                        out.append(dict(unit=u, what='harness ' + e['name'], passed=(rc == 0) if rc in (0, 1) else None, observed=o[-800:], kind='harness', name=e['name'],
                                        how=f'replays/{e["name"]} (cargo run --offline --release against {REPO})'))
                except subprocess.TimeoutExpired:
                    out.append(dict(unit=u, what=str(e), passed=None, observed='timeout', how=''))
    return out
