#!/bin/sh
# stab.sh <unit> : run the unit under several solver seeds
for seed in 1 2 3 4 5 6 7 8; do
  echo "seed $seed: $(VERIF_VERUS_EXTRA="--smt-option smt.random_seed=$seed --smt-option sat.random_seed=$seed" /verif/check --unit $1 2>&1 | head -4 | tr '\n' ' ' | cut -c1-300)"
done
