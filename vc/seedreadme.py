#!/usr/bin/env python3
"""Regenerate seeded/README.md from the meta.json files."""
import json, os
HERE = os.path.dirname(os.path.dirname(os.path.abspath(__file__)))
rows = []
for sid in sorted(os.listdir(os.path.join(HERE, 'seeded'))):
    mp = os.path.join(HERE, 'seeded', sid, 'meta.json')
    if not os.path.isfile(mp):
        continue
    m = json.load(open(mp))
    conf = m.get('confirmed') or {}
    det = []
    for prop, r in list((m.get('checks') or {}).items()) + list((m.get('checks_thorough') or {}).items()):
        v = 'VIOLATION' if r['exit'] == 1 else ('UNDECIDED' if r['exit'] == 2 else 'not detected')
        obl = '; '.join(f"{o['function']}: {o['kind']}" + (' [failing input found]' if o.get('failing_input') else '') for o in r.get('obligations', [])[:2])
        det.append(f"{prop} {r.get('tier', 'quick')}: {v}" + (f' ({obl})' if obl else ''))
    rows.append((sid, m['property'], m['title'], m['needs_to_manifest'],
                 'yes' if conf.get('confirmed') else ('NO' if conf else 'pending'), '<br>'.join(det) or 'not run yet', m.get('why_missed', '')))
out = ['# Seeded property-breaking changes', '',
       'Each directory holds `patch.diff` (the change), `demo/` (a test that fails with it and passes without), `meta.json`',
       '(what it breaks, what it needs in order to manifest, what was run) and, where the sub-agent wrote one, `agent_notes.md`.',
       'Every change was produced by a sub-agent that saw only the property text and its own scratch worktree, and was then',
       'confirmed by `vc/seedconfirm.py` (demo passes clean / fails patched / full suite passes patched) in a scratch worktree.',
       '`vc/seedrun.py <id>` applies the patch to /repo, runs the registered checks and undoes it.', '',
       '| id | property | change | needs | confirmed | checks | if missed (or missed at first): why, and what was done |', '|---|---|---|---|---|---|---|']
for r in rows:
    out.append('| ' + ' | '.join(str(x).replace('|', '/').replace('\n', ' ') for x in r) + ' |')
open(os.path.join(HERE, 'seeded', 'README.md'), 'w').write('\n'.join(out) + '\n')
print('\n'.join(out[-len(rows):]))
