"""Generate a Verus file for a unit: extract real items from /repo, splice contracts, add canaries.

Unit description: units/<u>/unit.vs, a Verus source file with directive lines starting `//@`.

  //@ include <path relative to /verif>
  //@ item <repo file> <kind> <name>            extract struct/enum/const/type as is (R-VIS, attrs dropped)
  //@ impl <repo file> <impl header>            open an impl block; the real header is emitted
  //@ end-impl
  //@ fn <name>                                 (inside impl) extract + splice method <name>
  //@ fn <repo file> <name>                     (outside impl) free function
  //@ end-fn
  inside a fn block:
  //@ ret <ident>                               name the return value  `-> T`  =>  `-> (ident: T)`
  //@ canary off                                no `ensures false` twin
  //@ rewrite <RULE> [args]                     enable a rewrite rule for this function
  //@ at <anchor>                               following plain lines are inserted at the anchor
       anchors: sig | entry | tail | end | loop K spec | loop K body-start | loop K body-end |
                before-loop K | after-loop K | return J | closure K spec
Everything that is not a directive is copied through unchanged (spec functions, lemmas, stubs).
"""
import os
import re
import hashlib
from rustlex import lex, parse_items, match_close, is_p, is_id, norm, line_of, LexError

REPO = os.environ.get('VERIF_REPO', '/repo')
VERIF = os.path.dirname(os.path.dirname(os.path.abspath(__file__)))


class LostAnchor(Exception):
    """Something the unit refers to is not there (any more): undecided, never an alarm."""


class SrcFile:
    cache = {}

    def __init__(self, rel):
        self.rel = rel
        self.path = os.path.join(REPO, rel)
        try:
            self.src = open(self.path).read()
        except OSError as e:
            raise LostAnchor(f'cannot read {rel}: {e}')
        try:
            self.toks = lex(self.src)
            self.items = parse_items(self.toks, 0, len(self.toks))
        except (LexError, IndexError, AssertionError) as e:
            raise LostAnchor(f'cannot lex/parse {rel}: {e}')

    @classmethod
    def get(cls, rel):
        if rel not in cls.cache:
            cls.cache[rel] = SrcFile(rel)
        return cls.cache[rel]

    def sub_items(self, item):
        return parse_items(self.toks, item.body_open + 1, item.body_close)

    def all_mods(self):
        """items of the file and of its inline modules (non-test)"""
        out = []

        def rec(items):
            for it in items:
                out.append(it)
                if it.kind == 'mod' and it.body_open is not None and it.name not in ('tests', 'test'):
                    rec(self.sub_items(it))
        rec(self.items)
        return out

    def find_item(self, kind, name):
        c = [it for it in self.all_mods() if it.kind == kind and it.name == name]
        if len(c) != 1:
            raise LostAnchor(f'{self.rel}: expected exactly one {kind} {name}, found {len(c)}')
        return c[0]

    def find_impls(self, header):
        want = re.sub(r'\s+', '', header)
        c = [it for it in self.all_mods() if it.kind == 'impl' and it.header is not None and re.sub(r'\s+', '', it.header) == want]
        if not c:
            raise LostAnchor(f'{self.rel}: no impl block with header `{header}`')
        return c

    def find_method(self, impls, name):
        c = []
        for im in impls:
            for it in self.sub_items(im):
                if it.kind == 'fn' and it.name == name:
                    c.append(it)
        if len(c) != 1:
            raise LostAnchor(f'{self.rel}: expected exactly one fn {name} in impl, found {len(c)}')
        return c[0]


# --------------------------------------------------------------------------------------------
# text with origins


class Out:
    """Accumulates output lines with an origin for each."""

    def __init__(self):
        self.lines = []      # text
        self.origin = []     # ('repo', rel, line) | ('unit', path, line) | ('gen', what)
        self.cur = ''
        self.cur_origin = None

    def add(self, text, origin_fn):
        """origin_fn(k) -> origin for the k-th line (0-based) of text."""
        parts = text.split('\n')
        for k, p in enumerate(parts):
            if k > 0:
                self.lines.append(self.cur)
                self.origin.append(self.cur_origin)
                self.cur = ''
                self.cur_origin = None
            if p.strip() and self.cur_origin is None:
                self.cur_origin = origin_fn(k)
            self.cur += p

    def nl(self):
        if self.cur:
            self.add('\n', lambda k: None)

    def text(self):
        return '\n'.join(self.lines + [self.cur])

    def lineno(self):
        return len(self.lines) + 1


# --------------------------------------------------------------------------------------------
# function analysis

LOOP_KW = ('for', 'while', 'loop')


class FnInfo:
    def __init__(self, sf, item):
        self.sf = sf
        self.item = item
        toks = sf.toks
        self.toks = toks
        if item.body_open is None:
            raise LostAnchor(f'fn {item.name} has no body')
        self.loops = []    # dicts: kw, label_start, open, close
        self.returns = []
        self.breaks = []
        self.closures = []  # dicts: bar1, bar2 (token idx of the two |), body_start tok idx
        i = item.body_open + 1
        end = item.body_close
        while i < end:
            t = toks[i]
            if t.kind == 'id' and t.text in LOOP_KW:
                prev = toks[i - 1]
                nxt = toks[i + 1]
                ok = True
                if t.text == 'for' and is_p(nxt, '<'):
                    ok = False
                if is_p(prev, '.'):
                    ok = False
                if ok:
                    j = i + 1
                    while j < end and not is_p(toks[j], '{'):
                        if toks[j].kind == 'punct' and toks[j].text in ('(', '['):
                            j = match_close(toks, j)
                        j += 1
                    if j >= end:
                        raise LostAnchor(f'fn {item.name}: loop without body')
                    k = match_close(toks, j)
                    start = i
                    if i >= 2 and is_p(toks[i - 1], ':') and toks[i - 2].kind == 'life':
                        start = i - 2
                    self.loops.append(dict(kw=i, start=start, open=j, close=k, kind=t.text))
            elif t.kind == 'id' and t.text == 'return':
                self.returns.append(i)
            elif t.kind == 'id' and t.text == 'break':
                self.breaks.append(i)
            elif is_p(t, '|'):
                # closure literal: `|` in expression-start position
                prev = toks[i - 1]
                starts = (prev.kind == 'punct' and prev.text in '(,={;[&!:>' and not (prev.text == '>' and False)) or \
                         (prev.kind == 'id' and prev.text in ('move', 'return', 'else', 'in'))
                if is_p(prev, '|') and False:
                    starts = False
                if starts and not (self.closures and self.closures[-1]['bar2'] >= i):
                    if is_p(toks[i + 1], '|'):
                        j = i + 1
                    else:
                        j = i + 1
                        while j < end and not is_p(toks[j], '|'):
                            if toks[j].kind == 'punct' and toks[j].text in ('(', '[', '{'):
                                j = match_close(toks, j)
                            j += 1
                    self.closures.append(dict(bar1=i, bar2=j))
            i += 1

    def off(self, ti):
        return self.toks[ti].start

    def end_off(self, ti):
        return self.toks[ti].end

    def tail_off(self):
        toks = self.toks
        it = self.item
        i = it.body_open + 1
        end = it.body_close
        pos = i
        j = i
        while j < end:
            t = toks[j]
            if t.kind == 'punct' and t.text in ('(', '[', '{'):
                j = match_close(toks, j) + 1
                continue
            if is_p(t, ';'):
                pos = j + 1
            j += 1
        # skip loop statements following the last `;`
        changed = True
        while changed:
            changed = False
            for lp in self.loops:
                if lp['start'] == pos:
                    pos = lp['close'] + 1
                    changed = True
        if pos >= end:
            return self.off(end)
        return self.off(pos)

    def anchor_offset(self, anchor):
        a = anchor.split()
        it = self.item
        try:
            if a[0] == 'attr':
                return self.off(it.first)
            if a[0] == 'sig':
                return self.off(it.body_open)
            if a[0] == 'entry':
                return self.end_off(it.body_open)
            if a[0] == 'end':
                return self.off(it.body_close)
            if a[0] == 'tail':
                return self.tail_off()
            if a[0] == 'loop':
                lp = self.loops[int(a[1])]
                if a[2] == 'spec':
                    return self.off(lp['open'])
                if a[2] == 'body-start':
                    return self.end_off(lp['open'])
                if a[2] == 'body-end':
                    return self.off(lp['close'])
            if a[0] == 'before-loop':
                return self.off(self.loops[int(a[1])]['start'])
            if a[0] == 'after-loop':
                return self.end_off(self.loops[int(a[1])]['close'])
            if a[0] == 'return':
                return self.off(self.returns[int(a[1])])
            if a[0] == 'break':
                return self.off(self.breaks[int(a[1])])
            if a[0] == 'closure' and a[2] == 'spec':
                return self.end_off(self.closures[int(a[1])]['bar2'])
        except IndexError:
            raise LostAnchor(f'fn {it.name}: anchor `{anchor}` not found (loops={len(self.loops)}, returns={len(self.returns)}, closures={len(self.closures)})')
        raise LostAnchor(f'fn {it.name}: unknown anchor `{anchor}`')


# --------------------------------------------------------------------------------------------
# rewrites: each returns a list of edits (start_off, end_off, replacement, rule)

LOG_MACROS = {'log', 'info', 'debug', 'trace', 'warn', 'error', 'debug_assert', 'debug_assert_eq', 'debug_assert_ne'}


def strip_edits(sf, first, last):
    """R-VIS / attributes / R-LOG over tokens first..last."""
    toks = sf.toks
    edits = []
    i = first
    while i <= last:
        t = toks[i]
        if is_p(t, '#') and i + 1 <= last and (is_p(toks[i + 1], '[') or (is_p(toks[i + 1], '!') and is_p(toks[i + 2], '['))):
            j = i + 1
            if is_p(toks[j], '!'):
                j += 1
            k = match_close(toks, j)
            edits.append((t.start, toks[k].end, '', 'R-ATTR'))
            i = k + 1
            continue
        if is_id(t, 'pub'):
            prev = toks[i - 1] if i > 0 else None
            if i + 1 <= last and is_p(toks[i + 1], '('):
                k = match_close(toks, i + 1)
                inner = norm(toks, i + 2, k)
                if inner in ('crate', 'super', 'self') or inner.startswith('in '):
                    edits.append((t.start, toks[k].end, '', 'R-VIS'))
                    i = k + 1
                    continue
            edits.append((t.start, t.end, '', 'R-VIS'))
            i += 1
            continue
        # `if log_enabled!(..) { .. }` statement without else: log-only
        if is_id(t, 'if') and i + 3 <= last and is_id(toks[i + 1], 'log_enabled') and is_p(toks[i + 2], '!') and is_p(toks[i + 3], '('):
            prev = toks[i - 1]
            k = match_close(toks, i + 3)
            if prev.kind == 'punct' and prev.text in ('{', '}', ';') and is_p(toks[k + 1], '{'):
                k2 = match_close(toks, k + 1)
                if not is_id(toks[k2 + 1], 'else'):
                    edits.append((t.start, toks[k2].end, '', 'R-LOG'))
                    i = k2 + 1
                    continue
        # log statement: [log ::] name ! ( ... ) ;
        if t.kind == 'id' and (t.text in LOG_MACROS):
            prev = toks[i - 1]
            stmt_start = prev.kind == 'punct' and prev.text in ('{', '}', ';')
            j = i
            if t.text == 'log' and is_p(toks[i + 1], ':') and is_p(toks[i + 2], ':'):
                j = i + 3
            if stmt_start and toks[j].kind == 'id' and toks[j].text in LOG_MACROS and is_p(toks[j + 1], '!') and is_p(toks[j + 2], '('):
                k = match_close(toks, j + 2)
                if k + 1 <= last and is_p(toks[k + 1], ';'):
                    edits.append((t.start, toks[k + 1].end, '', 'R-LOG'))
                    i = k + 2
                    continue
        i += 1
    return edits


def pub_edits(sf, item, add_item_pub=True):
    """R-VIS part 2: after stripping, make the item and (for structs) its fields `pub`, so that
    specifications may mention them (single-file crate: visibility has no semantic content)."""
    toks = sf.toks
    edits = []
    if add_item_pub and item.kind in ('fn', 'struct', 'enum', 'type', 'const', 'static'):
        # insert before qualifiers (const/unsafe/async fn) : right after attrs/vis => at first non-attr, non-vis token
        i = item.first
        while i < item.kw:
            t = toks[i]
            if is_p(t, '#'):
                j = i + 1
                if is_p(toks[j], '!'):
                    j += 1
                i = match_close(toks, j) + 1
                continue
            if is_id(t, 'pub'):
                i += 1
                if is_p(toks[i], '('):
                    i = match_close(toks, i) + 1
                continue
            break
        edits.append((toks[i].start, toks[i].start, 'pub ', 'R-VIS'))
    if item.kind == 'struct':
        # named fields
        if item.body_open is not None:
            i = item.body_open + 1
            expect = True
            adepth = 0
            while i < item.body_close:
                t = toks[i]
                if expect:
                    if is_p(t, '#'):
                        i = match_close(toks, i + 1) + 1
                        continue
                    if is_id(t, 'pub'):
                        i += 1
                        if is_p(toks[i], '('):
                            i = match_close(toks, i) + 1
                        continue
                    if t.kind == 'id' and is_p(toks[i + 1], ':'):
                        edits.append((t.start, t.start, 'pub ', 'R-VIS'))
                        expect = False
                if t.kind == 'punct' and t.text in ('(', '[', '{'):
                    i = match_close(toks, i)
                elif is_p(t, '<'):
                    adepth += 1
                elif is_p(t, '>') and not is_p(toks[i - 1], '-'):
                    adepth -= 1
                elif is_p(t, ',') and adepth == 0:
                    expect = True
                i += 1
        else:
            # tuple struct: struct A(T, U);
            i = item.kw
            while i <= item.last and not is_p(toks[i], '('):
                i += 1
            if i <= item.last:
                k = match_close(toks, i)
                j = i + 1
                depth = 0
                start = True
                while j < k:
                    t = toks[j]
                    if start:
                        if is_p(t, '#'):
                            j = match_close(toks, j + 1) + 1
                            continue
                        if is_id(t, 'pub'):
                            j += 1
                            if is_p(toks[j], '('):
                                j = match_close(toks, j) + 1
                            continue
                        edits.append((t.start, t.start, 'pub ', 'R-VIS'))
                        start = False
                    if t.kind == 'punct' and t.text in ('(', '[', '{'):
                        j = match_close(toks, j)
                    elif is_p(t, '<'):
                        depth += 1
                    elif is_p(t, '>') and not is_p(toks[j - 1], '-'):
                        depth -= 1
                    elif is_p(t, ',') and depth == 0:
                        start = True
                    j += 1
    return edits


def ret_edit(sf, item, name):
    toks = sf.toks
    i = item.kw
    # find param list
    j = i
    while not is_p(toks[j], '('):
        if is_p(toks[j], '<'):
            # skip generics (no parens inside generics that matter)
            depth = 0
            while True:
                if is_p(toks[j], '<'):
                    depth += 1
                elif is_p(toks[j], '>') and not is_p(toks[j - 1], '-'):
                    depth -= 1
                    if depth == 0:
                        break
                j += 1
        j += 1
    k = match_close(toks, j)
    if not (is_p(toks[k + 1], '-') and is_p(toks[k + 2], '>')):
        raise LostAnchor(f'fn {item.name}: no return type to name')
    a = k + 3
    b = a
    while b < item.body_open and not is_id(toks[b], 'where'):
        if toks[b].kind == 'punct' and toks[b].text in ('(', '['):
            b = match_close(toks, b)
        b += 1
    return [(toks[a].start, toks[a].start, f'({name}: ', 'R-RET'), (toks[b - 1].end, toks[b - 1].end, ')', 'R-RET')]


def apply_edits(src, start, end, edits, out, rel, mark=None):
    """Emit src[start:end] with edits applied. edits: (s, e, text, origin) ; origin is a rule name
    (replacement of repo text) or ('unit', path, line0) for inserted contract text."""
    edits = sorted(enumerate(edits), key=lambda p: (p[1][0], p[0]))
    pos = start
    for _, (s, e, text, org) in edits:
        if s < pos:
            if s == e and s >= start:
                pass
            else:
                raise LostAnchor(f'overlapping rewrite edits in {rel} at offset {s} ({org})')
        if s > pos:
            base = line_of(src, pos)
            out.add(src[pos:s], lambda k, base=base: ('repo', rel, base + k))
        if isinstance(org, tuple):
            out.add(text, lambda k, org=org: (org[0], org[1], org[2] + k))
        else:
            base = line_of(src, s)
            out.add(text, lambda k, base=base: ('repo', rel, base))
        pos = max(pos, e)
    if pos < end:
        base = line_of(src, pos)
        out.add(src[pos:end], lambda k, base=base: ('repo', rel, base + k))


# --------------------------------------------------------------------------------------------
# more rewrites, enabled per function with `//@ rewrite RULE`

def find_stmt_start(toks, i, lo):
    """index of the first token of the statement containing token i (scan back to ; { })"""
    j = i - 1
    depth = 0
    while j > lo:
        t = toks[j]
        if t.kind == 'punct':
            if t.text in (')', ']', '}'):
                if depth == 0 and t.text == '}':
                    return j + 1
                depth += 1
            elif t.text in ('(', '[', '{'):
                if depth == 0:
                    return j + 1
                depth -= 1
            elif t.text == ';' and depth == 0:
                return j + 1
        j -= 1
    return lo + 1


def rw_boolop(fi, args):
    """R-BOOLOP:  X |= E;  ->  { let __t = E; X = X || __t; }   (&= likewise). args: place names."""
    toks = fi.toks
    edits = []
    places = set(args)
    i = fi.item.body_open + 1
    while i < fi.item.body_close:
        t = toks[i]
        if t.kind == 'punct' and t.text in '|&' and is_p(toks[i + 1], '=') and toks[i + 1].start == t.end \
                and not is_p(toks[i - 1], t.text):
            s = find_stmt_start(toks, i, fi.item.body_open)
            place = ''.join(x.text for x in toks[s:i])
            if place in places:
                j = i + 2
                while not is_p(toks[j], ';'):
                    if toks[j].kind == 'punct' and toks[j].text in ('(', '[', '{'):
                        j = match_close(toks, j)
                    j += 1
                op = '||' if t.text == '|' else '&&'
                src = fi.sf.src
                e_txt = src[toks[i + 2].start:toks[j].start]
                p_txt = src[toks[s].start:toks[i].start].strip()
                edits.append((toks[s].start, toks[j].end, f'{{ let __t = {e_txt.strip()}; {p_txt} = {p_txt} {op} __t; }}', 'R-BOOLOP'))
                i = j
        i += 1
    if not edits:
        raise LostAnchor(f'fn {fi.item.name}: R-BOOLOP did not fire')
    return edits


def rw_for_range(fi, args):
    """R-FOR: `for P in A..B {` -> while loop with the increment first (so `continue` keeps its meaning).
    args: loop ordinals."""
    toks = fi.toks
    src = fi.sf.src
    edits = []
    for a in args:
        lp = fi.loops[int(a)]
        if lp['kind'] != 'for':
            raise LostAnchor(f'fn {fi.item.name}: R-FOR on a non-for loop')
        i = lp['kw']
        j = i + 1
        while not is_id(toks[j], 'in'):
            j += 1
        pat = src[toks[i + 1].start:toks[j].start].strip()
        # find `..` at depth 0
        k = j + 1
        dd = None
        while k < lp['open']:
            if toks[k].kind == 'punct' and toks[k].text in ('(', '['):
                k = match_close(toks, k)
            elif is_p(toks[k], '.') and is_p(toks[k + 1], '.') and toks[k + 1].start == toks[k].end:
                dd = k
                break
            k += 1
        if dd is None or is_p(toks[dd + 2], '='):
            raise LostAnchor(f'fn {fi.item.name}: R-FOR needs a half-open range')
        lo = src[toks[j + 1].start:toks[dd].start].strip()
        hi = src[toks[dd + 2].start:toks[lp['open']].start].strip()
        n = a
        edits.append((toks[lp['start']].start, toks[lp['start']].start, f'let mut __i{n} = {lo}; let __e{n} = {hi};\n', 'R-FOR'))
        edits.append((toks[i].start, toks[lp['open']].start, f'while __i{n} < __e{n} ', 'R-FOR'))
        edits.append((toks[lp['open']].end, toks[lp['open']].end, f' let {pat} = __i{n}; __i{n} += 1;', 'R-FOR'))
    return edits


def rw_hoist(fi, args):
    """R-HOIST: `for P in A..B {` / `A..=B`  ->  `let __s = A; for P in __s..B {`.
    Verus re-evaluates a pure range-start expression in its automatic for-loop invariant; when the
    body mutates what A reads (e.g. `self.parents.len()`), that invariant is unprovable. The range
    is evaluated once before the loop in Rust either way, so hoisting A is meaning-preserving."""
    toks = fi.toks
    src = fi.sf.src
    edits = []
    for a in args:
        lp = fi.loops[int(a)]
        if lp['kind'] != 'for':
            raise LostAnchor(f'fn {fi.item.name}: R-HOIST on a non-for loop')
        j = lp['kw'] + 1
        while not is_id(toks[j], 'in'):
            j += 1
        k = j + 1
        dd = None
        while k < lp['open']:
            if toks[k].kind == 'punct' and toks[k].text in ('(', '['):
                k = match_close(toks, k)
            elif is_p(toks[k], '.') and is_p(toks[k + 1], '.') and toks[k + 1].start == toks[k].end:
                dd = k
                break
            k += 1
        if dd is None or dd == j + 1:
            raise LostAnchor(f'fn {fi.item.name}: R-HOIST needs a range with a start expression')
        lo = src[toks[j + 1].start:toks[dd].start].strip()
        edits.append((toks[lp['start']].start, toks[lp['start']].start, f'let __s{a} = {lo}; ', 'R-HOIST'))
        edits.append((toks[j + 1].start, toks[dd].start, f'__s{a}', 'R-HOIST'))
    return edits


def rw_letchain(fi, args):
    """R-LETCHAIN: `if let P = E && C { B }` (no else)  ->  `if let P = E { if C { B } }`."""
    toks = fi.toks
    edits = []
    i = fi.item.body_open + 1
    while i < fi.item.body_close:
        if is_id(toks[i], 'if') and is_id(toks[i + 1], 'let'):
            j = i + 2
            amps = []
            while not is_p(toks[j], '{'):
                if toks[j].kind == 'punct' and toks[j].text in ('(', '['):
                    j = match_close(toks, j)
                elif is_p(toks[j], '&') and is_p(toks[j + 1], '&') and toks[j + 1].start == toks[j].end:
                    amps.append(j)
                    j += 1
                j += 1
            if amps:
                k = match_close(toks, j)
                if is_id(toks[k + 1], 'else'):
                    raise LostAnchor(f'fn {fi.item.name}: R-LETCHAIN cannot rewrite a let-chain with an else branch')
                for a in amps:
                    edits.append((toks[a].start, toks[a + 1].end, '{ if', 'R-LETCHAIN'))
                edits.append((toks[k].end, toks[k].end, ' }' * len(amps), 'R-LETCHAIN'))
        i += 1
    if not edits:
        raise LostAnchor(f'fn {fi.item.name}: R-LETCHAIN did not fire')
    return edits


def rw_iter(fi, args):
    """R-ITER: `for P in E {` -> `for P in __itK: E {` : names Verus's ghost iterator of loop K so that
    invariants can mention its position. Purely an annotation (erased with the other ghost code)."""
    toks = fi.toks
    edits = []
    for a in args:
        lp = fi.loops[int(a)]
        if lp['kind'] != 'for':
            raise LostAnchor(f'fn {fi.item.name}: R-ITER on a non-for loop')
        j = lp['kw'] + 1
        while not is_id(toks[j], 'in'):
            j += 1
        edits.append((toks[j].end, toks[j].end, f' __it{a}:', 'R-ITER'))
    return edits


def rw_cuttail(fi, args):
    """R-CUTTAIL J: drop everything after the top-level statement of the body that contains `return J`
    and put `vc_unreachable()` (requires false) there: the remainder is NOT verified and must be
    shown unreachable from the contracts."""
    toks = fi.toks
    it = fi.item
    r = fi.returns[int(args[0])]
    i = it.body_open + 1
    stmt_end = None
    while i < it.body_close:
        t = toks[i]
        j = i
        # advance to end of this top-level statement
        while j < it.body_close:
            tj = toks[j]
            if tj.kind == 'punct' and tj.text in ('(', '['):
                j = match_close(toks, j)
            elif is_p(tj, '{'):
                j = match_close(toks, j)
                nxt = toks[j + 1]
                if not (is_id(nxt, 'else') or is_p(nxt, '.') or is_p(nxt, '?') or is_p(nxt, ';')):
                    break
            elif is_p(tj, ';'):
                break
            j += 1
        if i <= r <= j:
            stmt_end = j
            break
        i = j + 1
    if stmt_end is None:
        raise LostAnchor(f'fn {it.name}: R-CUTTAIL could not find the statement of return {args[0]}')
    return [(toks[stmt_end].end, toks[it.body_close].start, '\n        vc_unreachable()\n    ', 'R-CUTTAIL')]


REWRITES = {
    'R-CUTTAIL': rw_cuttail,
    'R-ITER': rw_iter,
    'R-LETCHAIN': rw_letchain,
    'R-HOIST': rw_hoist,
    'R-BOOLOP': rw_boolop,
    'R-FOR': rw_for_range,
}


# --------------------------------------------------------------------------------------------
# unit processing


class FnSpec:
    def __init__(self, name, unit_path, line):
        self.name = name
        self.ret = None
        self.canary = True
        self.rewrites = []
        self.inserts = []    # (anchor, text, (unit_path, line))
        self.unit_path = unit_path
        self.line = line
        self.emit_name = None


def canary_sig(sig_text):
    if re.search(r'\bensures\b', sig_text):
        return re.sub(r'\bensures\b', 'ensures false,', sig_text, count=1)
    m = re.search(r'\bdecreases\b', sig_text)
    if m:
        return sig_text[:m.start()] + 'ensures false,\n' + sig_text[m.start():]
    return sig_text.rstrip() + '\n    ensures false,\n'


class Generated:
    def __init__(self):
        self.out = Out()
        self.functions = []   # dict(name, qual, rel, line, hash, gen_start, gen_end, canary(bool), contract(bool))
        self.rewrites = []    # (rule, rel, line)
        self.dropped = {}
        self.clauses = []     # (fn, anchor, text)
        self.projected = []   # (rel, struct, dropped fields)


def emit_fn(gen, sf, item, spec, canary=False, qual='', in_trait=False):
    fi = FnInfo(sf, item)
    toks = sf.toks
    src = sf.src
    edits = strip_edits(sf, item.first, item.last)
    if not in_trait:
        edits += pub_edits(sf, item)
    if spec.ret:
        edits += ret_edit(sf, item, spec.ret)
    for rule, args in spec.rewrites:
        if rule not in REWRITES:
            raise LostAnchor(f'unknown rewrite {rule}')
        edits += REWRITES[rule](fi, args)
    has_sig = False
    for anchor, text, org in spec.inserts:
        off = fi.anchor_offset(anchor)
        if anchor == 'sig':
            has_sig = True
            if canary:
                text = canary_sig(text)
        e = (off, off, '\n' + text + '\n', ('unit', org[0], org[1] - 1))
        if anchor == 'attr':
            edits.insert(0, e)
        else:
            edits.append(e)
    if canary and not has_sig:
        off = fi.anchor_offset('sig')
        edits.append((off, off, '\n    ensures false,\n', ('unit', spec.unit_path, spec.line)))
    if canary:
        nm = toks[item.kw + 1]
        edits.append((nm.start, nm.end, '__canary_' + item.name, 'R-CANARY'))
    # edits swallowed by a larger replacement (R-CUTTAIL) are dropped
    big = [e for e in edits if isinstance(e[3], str) and e[3] in ('R-CUTTAIL',)]
    for b in big:
        edits = [e for e in edits if e is b or not (b[0] <= e[0] and e[1] <= b[1])]
    start_line = gen.out.lineno()
    gen.out.nl()
    start_line = gen.out.lineno()
    apply_edits(src, toks[item.first].start, toks[item.last].end, edits, gen.out, sf.rel)
    gen.out.nl()
    end_line = gen.out.lineno() - 1
    body = src[toks[item.first].start:toks[item.last].end]
    gen.functions.append(dict(
        name=('__canary_' if canary else '') + item.name, qual=qual, rel=sf.rel,
        line=line_of(src, toks[item.kw].start), hash=hashlib.sha256(body.encode()).hexdigest()[:16],
        gen_start=start_line, gen_end=end_line, canary=canary,
        contract=bool(spec.inserts), loops=len(fi.loops)))
    if not canary:
        for e in edits:
            if isinstance(e[3], str) and e[3] not in ('R-VIS', 'R-ATTR', 'R-CANARY'):
                gen.rewrites.append((e[3], sf.rel, line_of(src, e[0])))
            if isinstance(e[3], str) and e[3] in ('R-VIS', 'R-ATTR', 'R-LOG'):
                gen.dropped[e[3]] = gen.dropped.get(e[3], 0) + 1
        for anchor, text, org in spec.inserts:
            gen.clauses.append((qual + item.name, anchor, text.strip()))


def project_edits(sf, item, keep):
    """R-PROJECT: keep only the named fields of a struct (the others are dropped and reported)."""
    toks = sf.toks
    if item.kind != 'struct' or item.body_open is None:
        raise LostAnchor(f'{sf.rel}: `only` needs a struct with named fields ({item.name})')
    fields = []   # (name, first_tok, last_tok_incl_comma)
    i = item.body_open + 1
    while i < item.body_close:
        start = i
        # attributes / vis
        while is_p(toks[i], '#'):
            i = match_close(toks, i + 1) + 1
        if is_id(toks[i], 'pub'):
            i += 1
            if is_p(toks[i], '('):
                i = match_close(toks, i) + 1
        name = toks[i].text
        adepth = 0
        j = i
        while j < item.body_close:
            t = toks[j]
            if t.kind == 'punct' and t.text in ('(', '[', '{'):
                j = match_close(toks, j)
            elif is_p(t, '<'):
                adepth += 1
            elif is_p(t, '>') and not is_p(toks[j - 1], '-'):
                adepth -= 1
            elif is_p(t, ',') and adepth == 0:
                break
            j += 1
        last = j if j < item.body_close else item.body_close - 1
        fields.append((name, start, last))
        i = last + 1
    names = [f[0] for f in fields]
    for k in keep:
        if k not in names:
            raise LostAnchor(f'{sf.rel}: struct {item.name} has no field `{k}`')
    edits = []
    dropped = []
    for name, a, b in fields:
        if name not in keep:
            edits.append((toks[a - 1].end, toks[b].end, '', 'R-PROJECT'))
            dropped.append(name)
    return edits, dropped


def emit_item(gen, sf, item, only=None):
    edits = strip_edits(sf, item.first, item.last) + pub_edits(sf, item)
    if only is not None:
        pe, dropped = project_edits(sf, item, only)
        # remove strip/pub edits that fall inside dropped ranges
        edits = [e for e in edits if not any(p[0] <= e[0] and e[1] <= p[1] for p in pe)] + pe
        gen.projected.append((sf.rel, item.name, dropped))
    gen.out.nl()
    apply_edits(sf.src, sf.toks[item.first].start, sf.toks[item.last].end, edits, gen.out, sf.rel)
    gen.out.nl()
    for e in edits:
        gen.dropped[e[3]] = gen.dropped.get(e[3], 0) + 1


def generate(unit_path, canaries=True):
    """Returns Generated. unit_path: path of unit.vs"""
    gen = Generated()
    lines = []

    def load(path, depth=0):
        try:
            txt = open(path).read().split('\n')
        except OSError as e:
            raise LostAnchor(f'cannot read {path}: {e}')
        for n, l in enumerate(txt, 1):
            m = re.match(r'\s*//@\s*include\s+(\S+)', l)
            if m:
                load(os.path.join(VERIF, m.group(1)), depth + 1)
            else:
                lines.append((l, path, n))
    load(unit_path)

    i = 0
    pending_canaries = []
    cur_impl = None      # (sf, impls, header)
    n = len(lines)

    def parse_fn_block(i, name, path, lno):
        spec = FnSpec(name, path, lno)
        cur_anchor = None
        buf = []
        buf_line = None

        def flush():
            nonlocal buf, cur_anchor, buf_line
            if cur_anchor is not None:
                while buf and not buf[-1].strip():
                    buf.pop()
                if buf:
                    spec.inserts.append((cur_anchor, '\n'.join(buf), (path, buf_line)))
            buf = []
            cur_anchor = None
        while i < n:
            l, p, ln = lines[i]
            m = re.match(r'\s*//@\s*(.*)$', l)
            if m:
                d = m.group(1).strip()
                w = d.split()
                if w and w[0] in ('end-fn', 'fn', 'end-impl'):
                    flush()
                    if w[0] == 'end-fn':
                        i += 1
                    return spec, i
                if w[0] == 'ret':
                    spec.ret = w[1]
                elif w[0] == 'canary':
                    spec.canary = (w[1] != 'off')
                elif w[0] == 'rewrite':
                    spec.rewrites.append((w[1], w[2:]))
                elif w[0] == 'at':
                    flush()
                    cur_anchor = ' '.join(w[1:])
                    buf_line = ln + 1
                elif w[0] == '#':
                    pass
                else:
                    raise LostAnchor(f'{p}:{ln}: unknown directive in fn block: {d}')
            else:
                if cur_anchor is not None:
                    buf.append(l)
                elif l.strip():
                    raise LostAnchor(f'{p}:{ln}: text outside an `at` block in fn block')
            i += 1
        flush()
        return spec, i

    while i < n:
        l, p, ln = lines[i]
        m = re.match(r'\s*//@\s*(.*)$', l)
        if not m:
            gen.out.add(l + '\n', lambda k, p=p, ln=ln: ('unit', p, ln))
            i += 1
            continue
        d = m.group(1).strip()
        w = d.split()
        if not w or w[0] == '#':
            i += 1
            continue
        if w[0] == 'idtype':
            tmpl = open(os.path.join(VERIF, 'prelude', 'idtype.tmpl')).read()
            tp = os.path.join(VERIF, 'prelude', 'idtype.tmpl')
            for nm in w[1:]:
                gen.out.nl()
                gen.out.add(tmpl.replace('__NAME__', nm), lambda k, tp=tp: ('unit', tp, k + 1))
            i += 1
        elif w[0] == 'item':
            sf = SrcFile.get(w[1])
            only = None
            if len(w) > 5 and w[4] == 'only':
                only = [x for x in ' '.join(w[5:]).replace(',', ' ').split()]
            emit_item(gen, sf, sf.find_item(w[2], w[3]), only=only)
            i += 1
        elif w[0] == 'impl':
            sf = SrcFile.get(w[1])
            header = d.split(None, 2)[2]
            impls = sf.find_impls(header)
            cur_impl = (sf, impls, header)
            im = impls[0]
            hdr = sf.src[sf.toks[im.kw].start:sf.toks[im.body_open].end]
            base = line_of(sf.src, sf.toks[im.kw].start)
            gen.out.nl()
            gen.out.add(hdr + '\n', lambda k, base=base, rel=sf.rel: ('repo', rel, base + k))
            i += 1
        elif w[0] == 'end-impl':
            gen.out.nl()
            gen.out.add('}\n', lambda k, p=p, ln=ln: ('unit', p, ln))
            if pending_canaries:
                sf, impls, header = cur_impl
                m2 = re.match(r'^impl\s*(<.*?>)?\s*(?:.*?)\s+for\s+(.*)$', header)
                inh = f'impl{m2.group(1) or ""} {m2.group(2)} {{'
                gen.out.add(inh + '\n', lambda k, p=p, ln=ln: ('unit', p, ln))
                for (sf2, item2, spec2, qual2) in pending_canaries:
                    emit_fn(gen, sf2, item2, spec2, canary=True, qual=qual2)
                gen.out.nl()
                gen.out.add('}\n', lambda k, p=p, ln=ln: ('unit', p, ln))
                pending_canaries = []
            cur_impl = None
            i += 1
        elif w[0] == 'fn':
            if cur_impl is not None:
                sf, impls, header = cur_impl
                name = w[1]
                spec, i = parse_fn_block(i + 1, name, p, ln)
                item = sf.find_method(impls, name)
                qual = re.sub(r'^impl\s*(<[^>]*>)?\s*', '', header)
                qual = re.sub(r'^.*\sfor\s+', '', qual) + '::'
            else:
                sf = SrcFile.get(w[1])
                name = w[2]
                spec, i = parse_fn_block(i + 1, name, p, ln)
                item = sf.find_item('fn', name)
                qual = ''
            is_trait = cur_impl is not None and bool(re.search(r'\sfor\s', cur_impl[2]))
            emit_fn(gen, sf, item, spec, canary=False, qual=qual, in_trait=is_trait)
            if canaries and spec.canary:
                if cur_impl is not None and re.search(r'\sfor\s', cur_impl[2]):
                    pending_canaries.append((sf, item, spec, qual))
                else:
                    emit_fn(gen, sf, item, spec, canary=True, qual=qual)
        else:
            raise LostAnchor(f'{p}:{ln}: unknown directive: {d}')
    return gen
