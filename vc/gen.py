"""Generate a Verus file for a unit: extract real items from /repo, splice contracts, add canaries.

Unit description: units/<u>/unit.vs, a Verus source file with directive lines starting `//@`.

  //@ include <path relative to /verif>
  //@ item <repo file> <kind> <name>            extract struct/enum/const/type as is (R-VIS, attrs dropped)
  //@ impl <repo file> <impl header>            open an impl block; the real header is emitted
  //@ end-impl
  //@ fn <name>                                 (inside impl) extract + splice method <name>
  //@ fn <repo file> <name>                     (outside impl) free function
  //@ end-fn
  inside a fn block:
  //@ ret <ident>                               name the return value  `-> T`  =>  `-> (ident: T)`
  //@ canary off                                no `ensures false` twin
  //@ rewrite <RULE> [args]                     enable a rewrite rule for this function
  //@ at <anchor>                               following plain lines are inserted at the anchor
       anchors: sig | entry | tail | end | loop K spec | loop K body-start | loop K body-end |
                before-loop K | after-loop K | return J | closure K spec | after-semi K
Everything that is not a directive is copied through unchanged (spec functions, lemmas, stubs).
"""
import copy
import os
import re
import hashlib
from rustlex import lex, parse_items, match_close, is_p, is_id, norm, line_of, LexError

REPO = os.environ.get('VERIF_REPO', '/repo')
VERIF = os.path.dirname(os.path.dirname(os.path.abspath(__file__)))


class LostAnchor(Exception):
    """Something the unit refers to is not there (any more): undecided, never an alarm."""


class SrcFile:
    cache = {}

    def __init__(self, rel, text=None, line_base=0):
        self.rel = rel
        self.line_base = line_base
        self.path = os.path.join(REPO, rel)
        if text is not None:
            self.src = text
        else:
            try:
                self.src = open(self.path).read()
            except OSError as e:
                raise LostAnchor(f'cannot read {rel}: {e}')
        try:
            self.toks = lex(self.src)
            self.items = parse_items(self.toks, 0, len(self.toks))
        except (LexError, IndexError, AssertionError) as e:
            raise LostAnchor(f'cannot lex/parse {rel}: {e}')

    @classmethod
    def get(cls, rel):
        if rel not in cls.cache:
            cls.cache[rel] = SrcFile(rel)
        return cls.cache[rel]

    def sub_items(self, item):
        return parse_items(self.toks, item.body_open + 1, item.body_close)

    def all_mods(self):
        """items of the file and of its inline modules (non-test)"""
        out = []

        def rec(items):
            for it in items:
                out.append(it)
                if it.kind == 'mod' and it.body_open is not None and it.name not in ('tests', 'test'):
                    rec(self.sub_items(it))
        rec(self.items)
        return out

    def find_item(self, kind, name):
        c = [it for it in self.all_mods() if it.kind == kind and it.name == name]
        if len(c) != 1:
            raise LostAnchor(f'{self.rel}: expected exactly one {kind} {name}, found {len(c)}')
        return c[0]

    def find_impls(self, header):
        want = re.sub(r'\s+', '', header)
        c = [it for it in self.all_mods() if it.kind in ('impl', 'trait') and it.header is not None and re.sub(r'\s+', '', it.header) == want]
        if not c:
            raise LostAnchor(f'{self.rel}: no impl block with header `{header}`')
        return c

    def find_method(self, impls, name):
        c = []
        for im in impls:
            for it in self.sub_items(im):
                if it.kind == 'fn' and it.name == name:
                    c.append(it)
        if len(c) != 1:
            raise LostAnchor(f'{self.rel}: expected exactly one fn {name} in impl, found {len(c)}')
        return c[0]


# --------------------------------------------------------------------------------------------
# text with origins


class Out:
    """Accumulates output lines with an origin for each."""

    def __init__(self):
        self.lines = []      # text
        self.origin = []     # ('repo', rel, line) | ('unit', path, line) | ('gen', what)
        self.cur = ''
        self.cur_origin = None

    def add(self, text, origin_fn):
        """origin_fn(k) -> origin for the k-th line (0-based) of text."""
        parts = text.split('\n')
        for k, p in enumerate(parts):
            if k > 0:
                self.lines.append(self.cur)
                self.origin.append(self.cur_origin)
                self.cur = ''
                self.cur_origin = None
            if p.strip() and self.cur_origin is None:
                self.cur_origin = origin_fn(k)
            self.cur += p

    def nl(self):
        if self.cur:
            self.add('\n', lambda k: None)

    def text(self):
        return '\n'.join(self.lines + [self.cur])

    def lineno(self):
        return len(self.lines) + 1


# --------------------------------------------------------------------------------------------
# function analysis

LOOP_KW = ('for', 'while', 'loop')


class FnInfo:
    def __init__(self, sf, item):
        self.sf = sf
        self.item = item
        toks = sf.toks
        self.toks = toks
        self.loops = []    # dicts: kw, label_start, open, close
        self.returns = []
        self.breaks = []
        self.closures = []  # dicts: bar1, bar2 (token idx of the two |), body_start tok idx
        if item.body_open is None:
            # declaration only (trait method without default body): only `attr` and `sig` anchors exist
            return
        i = item.body_open + 1
        end = item.body_close
        while i < end:
            t = toks[i]
            if t.kind == 'id' and t.text in LOOP_KW:
                prev = toks[i - 1]
                nxt = toks[i + 1]
                ok = True
                if t.text == 'for' and is_p(nxt, '<'):
                    ok = False
                if is_p(prev, '.'):
                    ok = False
                if ok:
                    j = i + 1
                    while j < end and not is_p(toks[j], '{'):
                        if toks[j].kind == 'punct' and toks[j].text in ('(', '['):
                            j = match_close(toks, j)
                        j += 1
                    if j >= end:
                        raise LostAnchor(f'fn {item.name}: loop without body')
                    k = match_close(toks, j)
                    start = i
                    if i >= 2 and is_p(toks[i - 1], ':') and toks[i - 2].kind == 'life':
                        start = i - 2
                    self.loops.append(dict(kw=i, start=start, open=j, close=k, kind=t.text))
            elif t.kind == 'id' and t.text == 'return':
                self.returns.append(i)
            elif t.kind == 'id' and t.text == 'break':
                self.breaks.append(i)
            elif is_p(t, '|'):
                # closure literal: `|` in expression-start position
                prev = toks[i - 1]
                starts = (prev.kind == 'punct' and prev.text in '(,={;[&!:>' and not (prev.text == '>' and False)) or \
                         (prev.kind == 'id' and prev.text in ('move', 'return', 'else', 'in'))
                if is_p(prev, '|') and False:
                    starts = False
                if starts and not (self.closures and self.closures[-1]['bar2'] >= i):
                    if is_p(toks[i + 1], '|'):
                        j = i + 1
                    else:
                        j = i + 1
                        while j < end and not is_p(toks[j], '|'):
                            if toks[j].kind == 'punct' and toks[j].text in ('(', '[', '{'):
                                j = match_close(toks, j)
                            j += 1
                    self.closures.append(dict(bar1=i, bar2=j))
            i += 1

    def off(self, ti):
        return self.toks[ti].start

    def end_off(self, ti):
        return self.toks[ti].end

    def tail_off(self):
        toks = self.toks
        it = self.item
        i = it.body_open + 1
        end = it.body_close
        pos = i
        j = i
        while j < end:
            t = toks[j]
            if t.kind == 'punct' and t.text in ('(', '[', '{'):
                j = match_close(toks, j) + 1
                continue
            if is_p(t, ';'):
                pos = j + 1
            j += 1
        # skip block-like statements (if/match/loops/blocks without `;`) that are followed by more code
        while pos < end:
            t = toks[pos]
            q = pos
            if t.kind == 'life' and is_p(toks[pos + 1], ':'):
                q = pos + 2
                t = toks[q]
            if not ((t.kind == 'id' and t.text in ('if', 'match', 'loop', 'while', 'for', 'unsafe')) or is_p(t, '{')):
                break
            # find the end of this block-like expression
            k = q
            while True:
                while k < end and not is_p(toks[k], '{'):
                    if toks[k].kind == 'punct' and toks[k].text in ('(', '['):
                        k = match_close(toks, k)
                    k += 1
                if k >= end:
                    break
                k = match_close(toks, k)
                if k + 1 < end and is_id(toks[k + 1], 'else'):
                    k = k + 2
                    continue
                break
            if k >= end or k + 1 >= end:
                break           # it is the tail expression itself
            nxt = toks[k + 1]
            if is_p(nxt, '.') or is_p(nxt, '?'):
                break           # method chain on the block: part of the tail expression
            pos = k + 1
        if pos >= end:
            return self.off(end)
        return self.off(pos)

    def anchor_offset(self, anchor):
        a = anchor.split()
        it = self.item
        try:
            if a[0] == 'attr':
                return self.off(it.first)
            if a[0] == 'sig':
                return self.off(it.body_open if it.body_open is not None else it.last)
            if a[0] == 'entry':
                return self.end_off(it.body_open)
            if a[0] == 'end':
                return self.off(it.body_close)
            if a[0] == 'tail':
                return self.tail_off()
            if a[0] == 'loop':
                lp = self.loops[int(a[1])]
                if a[2] == 'spec':
                    return self.off(lp['open'])
                if a[2] == 'body-start':
                    return self.end_off(lp['open'])
                if a[2] == 'body-end':
                    return self.off(lp['close'])
            if a[0] == 'before-loop':
                return self.off(self.loops[int(a[1])]['start'])
            if a[0] == 'after-loop':
                return self.end_off(self.loops[int(a[1])]['close'])
            if a[0] == 'return':
                return self.off(self.returns[int(a[1])])
            if a[0] == 'break':
                return self.off(self.breaks[int(a[1])])
            if a[0] == 'closure' and a[2] == 'spec':
                return self.end_off(self.closures[int(a[1])]['bar2'])
            if a[0] == 'after-semi':
                # after the K-th `;` at the top level of the function body (0-based): between two statements
                toks = self.toks
                j = it.body_open + 1
                n = -1
                while j < it.body_close:
                    t = toks[j]
                    if t.kind == 'punct' and t.text in ('(', '[', '{'):
                        j = match_close(toks, j)
                    elif is_p(t, ';'):
                        n += 1
                        if n == int(a[1]):
                            return self.end_off(j)
                    j += 1
                raise IndexError
        except IndexError:
            raise LostAnchor(f'fn {it.name}: anchor `{anchor}` not found (loops={len(self.loops)}, returns={len(self.returns)}, closures={len(self.closures)})')
        raise LostAnchor(f'fn {it.name}: unknown anchor `{anchor}`')


# --------------------------------------------------------------------------------------------
# rewrites: each returns a list of edits (start_off, end_off, replacement, rule)

LOG_MACROS = {'log', 'info', 'debug', 'trace', 'warn', 'error', 'debug_assert', 'debug_assert_eq', 'debug_assert_ne'}


def strip_edits(sf, first, last):
    """R-VIS / attributes / R-LOG over tokens first..last."""
    toks = sf.toks
    edits = []
    i = first
    while i <= last:
        t = toks[i]
        if is_p(t, '#') and i + 1 <= last and (is_p(toks[i + 1], '[') or (is_p(toks[i + 1], '!') and is_p(toks[i + 2], '['))):
            j = i + 1
            if is_p(toks[j], '!'):
                j += 1
            k = match_close(toks, j)
            edits.append((t.start, toks[k].end, '', 'R-ATTR'))
            i = k + 1
            continue
        if is_id(t, 'pub'):
            prev = toks[i - 1] if i > 0 else None
            if i + 1 <= last and is_p(toks[i + 1], '('):
                k = match_close(toks, i + 1)
                inner = norm(toks, i + 2, k)
                if inner in ('crate', 'super', 'self') or inner.startswith('in '):
                    edits.append((t.start, toks[k].end, '', 'R-VIS'))
                    i = k + 1
                    continue
            edits.append((t.start, t.end, '', 'R-VIS'))
            i += 1
            continue
        # `if log_enabled!(..) { .. }` statement without else: log-only
        if is_id(t, 'if') and i + 3 <= last and is_id(toks[i + 1], 'log_enabled') and is_p(toks[i + 2], '!') and is_p(toks[i + 3], '('):
            prev = toks[i - 1]
            k = match_close(toks, i + 3)
            if prev.kind == 'punct' and prev.text in ('{', '}', ';') and is_p(toks[k + 1], '{'):
                k2 = match_close(toks, k + 1)
                if not is_id(toks[k2 + 1], 'else'):
                    edits.append((t.start, toks[k2].end, '', 'R-LOG'))
                    i = k2 + 1
                    continue
        # log statement: [log ::] name ! ( ... ) ;
        if t.kind == 'id' and (t.text in LOG_MACROS):
            prev = toks[i - 1]
            stmt_start = prev.kind == 'punct' and prev.text in ('{', '}', ';')
            j = i
            if t.text == 'log' and is_p(toks[i + 1], ':') and is_p(toks[i + 2], ':'):
                j = i + 3
            if stmt_start and toks[j].kind == 'id' and toks[j].text in LOG_MACROS and is_p(toks[j + 1], '!') and is_p(toks[j + 2], '('):
                k = match_close(toks, j + 2)
                if k + 1 <= last and is_p(toks[k + 1], ';'):
                    edits.append((t.start, toks[k + 1].end, '', 'R-LOG'))
                    i = k + 2
                    continue
        i += 1
    return edits


def pub_edits(sf, item, add_item_pub=True):
    """R-VIS part 2: after stripping, make the item and (for structs) its fields `pub`, so that
    specifications may mention them (single-file crate: visibility has no semantic content)."""
    toks = sf.toks
    edits = []
    if add_item_pub and item.kind in ('fn', 'struct', 'enum', 'type', 'const', 'static'):
        # insert before qualifiers (const/unsafe/async fn) : right after attrs/vis => at first non-attr, non-vis token
        i = item.first
        while i < item.kw:
            t = toks[i]
            if is_p(t, '#'):
                j = i + 1
                if is_p(toks[j], '!'):
                    j += 1
                i = match_close(toks, j) + 1
                continue
            if is_id(t, 'pub'):
                i += 1
                if is_p(toks[i], '('):
                    i = match_close(toks, i) + 1
                continue
            break
        edits.append((toks[i].start, toks[i].start, 'pub ', 'R-VIS'))
    if item.kind == 'struct':
        # named fields
        if item.body_open is not None:
            i = item.body_open + 1
            expect = True
            adepth = 0
            while i < item.body_close:
                t = toks[i]
                if expect:
                    if is_p(t, '#'):
                        i = match_close(toks, i + 1) + 1
                        continue
                    if is_id(t, 'pub'):
                        i += 1
                        if is_p(toks[i], '('):
                            i = match_close(toks, i) + 1
                        continue
                    if t.kind == 'id' and is_p(toks[i + 1], ':'):
                        edits.append((t.start, t.start, 'pub ', 'R-VIS'))
                        expect = False
                if t.kind == 'punct' and t.text in ('(', '[', '{'):
                    i = match_close(toks, i)
                elif is_p(t, '<'):
                    adepth += 1
                elif is_p(t, '>') and not is_p(toks[i - 1], '-'):
                    adepth -= 1
                elif is_p(t, ',') and adepth == 0:
                    expect = True
                i += 1
        else:
            # tuple struct: struct A(T, U);
            i = item.kw
            while i <= item.last and not is_p(toks[i], '('):
                i += 1
            if i <= item.last:
                k = match_close(toks, i)
                j = i + 1
                depth = 0
                start = True
                while j < k:
                    t = toks[j]
                    if start:
                        if is_p(t, '#'):
                            j = match_close(toks, j + 1) + 1
                            continue
                        if is_id(t, 'pub'):
                            j += 1
                            if is_p(toks[j], '('):
                                j = match_close(toks, j) + 1
                            continue
                        edits.append((t.start, t.start, 'pub ', 'R-VIS'))
                        start = False
                    if t.kind == 'punct' and t.text in ('(', '[', '{'):
                        j = match_close(toks, j)
                    elif is_p(t, '<'):
                        depth += 1
                    elif is_p(t, '>') and not is_p(toks[j - 1], '-'):
                        depth -= 1
                    elif is_p(t, ',') and depth == 0:
                        start = True
                    j += 1
    return edits


def ret_edit(sf, item, name):
    toks = sf.toks
    i = item.kw
    # find param list
    j = i
    while not is_p(toks[j], '('):
        if is_p(toks[j], '<'):
            # skip generics (no parens inside generics that matter)
            depth = 0
            while True:
                if is_p(toks[j], '<'):
                    depth += 1
                elif is_p(toks[j], '>') and not is_p(toks[j - 1], '-'):
                    depth -= 1
                    if depth == 0:
                        break
                j += 1
        j += 1
    k = match_close(toks, j)
    if not (is_p(toks[k + 1], '-') and is_p(toks[k + 2], '>')):
        raise LostAnchor(f'fn {item.name}: no return type to name')
    a = k + 3
    b = a
    stop = item.body_open if item.body_open is not None else item.last
    while b < stop and not is_id(toks[b], 'where'):
        if toks[b].kind == 'punct' and toks[b].text in ('(', '['):
            b = match_close(toks, b)
        b += 1
    return [(toks[a].start, toks[a].start, f'({name}: ', 'R-RET'), (toks[b - 1].end, toks[b - 1].end, ')', 'R-RET')]


def apply_edits(src, start, end, edits, out, rel, mark=None, line_base=0):
    """Emit src[start:end] with edits applied. edits: (s, e, text, origin) ; origin is a rule name
    (replacement of repo text) or ('unit', path, line0) for inserted contract text."""
    edits = sorted(enumerate(edits), key=lambda p: (p[1][0], p[0]))
    pos = start
    for _, (s, e, text, org) in edits:
        if s < pos:
            if s == e and s >= start:
                pass
            else:
                raise LostAnchor(f'overlapping rewrite edits in {rel} at offset {s} ({org})')
        if s > pos:
            base = line_of(src, pos) + line_base
            out.add(src[pos:s], lambda k, base=base: ('repo', rel, base + k))
        if isinstance(org, tuple):
            out.add(text, lambda k, org=org: (org[0], org[1], org[2] + k))
        else:
            base = line_of(src, s) + line_base
            out.add(text, lambda k, base=base: ('repo', rel, base))
        pos = max(pos, e)
    if pos < end:
        base = line_of(src, pos) + line_base
        out.add(src[pos:end], lambda k, base=base: ('repo', rel, base + k))


# --------------------------------------------------------------------------------------------
# more rewrites, enabled per function with `//@ rewrite RULE`

def find_stmt_start(toks, i, lo):
    """index of the first token of the statement containing token i (scan back to ; { })"""
    j = i - 1
    depth = 0
    while j > lo:
        t = toks[j]
        if t.kind == 'punct':
            if t.text in (')', ']', '}'):
                if depth == 0 and t.text == '}':
                    return j + 1
                depth += 1
            elif t.text in ('(', '[', '{'):
                if depth == 0:
                    return j + 1
                depth -= 1
            elif t.text == ';' and depth == 0:
                return j + 1
        j -= 1
    return lo + 1


def rw_boolop(fi, args, spec=None):
    """R-BOOLOP:  X |= E;  ->  { let __t = E; X = X || __t; }   (&= likewise). args: place names."""
    toks = fi.toks
    edits = []
    places = set(args)
    i = fi.item.body_open + 1
    while i < fi.item.body_close:
        t = toks[i]
        if t.kind == 'punct' and t.text in '|&' and is_p(toks[i + 1], '=') and toks[i + 1].start == t.end \
                and not is_p(toks[i - 1], t.text):
            s = find_stmt_start(toks, i, fi.item.body_open)
            place = ''.join(x.text for x in toks[s:i])
            if place in places:
                j = i + 2
                while not is_p(toks[j], ';'):
                    if toks[j].kind == 'punct' and toks[j].text in ('(', '[', '{'):
                        j = match_close(toks, j)
                    j += 1
                op = '||' if t.text == '|' else '&&'
                src = fi.sf.src
                e_txt = src[toks[i + 2].start:toks[j].start]
                p_txt = src[toks[s].start:toks[i].start].strip()
                edits.append((toks[s].start, toks[j].end, f'{{ let __t = {e_txt.strip()}; {p_txt} = {p_txt} {op} __t; }}', 'R-BOOLOP'))
                i = j
        i += 1
    if not edits:
        raise LostAnchor(f'fn {fi.item.name}: R-BOOLOP did not fire')
    return edits


def rw_for_range(fi, args, spec=None):
    """R-FOR: `for P in A..B {` -> while loop with the increment first (so `continue` keeps its meaning).
    args: loop ordinals."""
    toks = fi.toks
    src = fi.sf.src
    edits = []
    for a in args:
        lp = fi.loops[int(a)]
        if lp['kind'] != 'for':
            raise LostAnchor(f'fn {fi.item.name}: R-FOR on a non-for loop')
        i = lp['kw']
        j = i + 1
        while not is_id(toks[j], 'in'):
            j += 1
        pat = src[toks[i + 1].start:toks[j].start].strip()
        # find `..` at depth 0
        k = j + 1
        dd = None
        while k < lp['open']:
            if toks[k].kind == 'punct' and toks[k].text in ('(', '['):
                k = match_close(toks, k)
            elif is_p(toks[k], '.') and is_p(toks[k + 1], '.') and toks[k + 1].start == toks[k].end:
                dd = k
                break
            k += 1
        if dd is None or is_p(toks[dd + 2], '='):
            raise LostAnchor(f'fn {fi.item.name}: R-FOR needs a half-open range')
        lo = src[toks[j + 1].start:toks[dd].start].strip()
        hi = src[toks[dd + 2].start:toks[lp['open']].start].strip()
        n = a
        edits.append((toks[lp['start']].start, toks[lp['start']].start, f'let mut __i{n} = {lo}; let __e{n} = {hi};\n#[verifier::loop_isolation(false)]\n', 'R-FOR'))
        edits.append((toks[i].start, toks[lp['open']].start, f'while __i{n} < __e{n} ', 'R-FOR'))
        edits.append((toks[lp['open']].end, toks[lp['open']].end, f' let {pat} = __i{n}; __i{n} += 1;', 'R-FOR'))
    return edits


def rw_hoist(fi, args, spec=None):
    """R-HOIST: `for P in A..B {` / `A..=B`  ->  `let __s = A; for P in __s..B {`.
    Verus re-evaluates a pure range-start expression in its automatic for-loop invariant; when the
    body mutates what A reads (e.g. `self.parents.len()`), that invariant is unprovable. The range
    is evaluated once before the loop in Rust either way, so hoisting A is meaning-preserving."""
    toks = fi.toks
    src = fi.sf.src
    edits = []
    for a in args:
        lp = fi.loops[int(a)]
        if lp['kind'] != 'for':
            raise LostAnchor(f'fn {fi.item.name}: R-HOIST on a non-for loop')
        j = lp['kw'] + 1
        while not is_id(toks[j], 'in'):
            j += 1
        k = j + 1
        dd = None
        while k < lp['open']:
            if toks[k].kind == 'punct' and toks[k].text in ('(', '['):
                k = match_close(toks, k)
            elif is_p(toks[k], '.') and is_p(toks[k + 1], '.') and toks[k + 1].start == toks[k].end:
                dd = k
                break
            k += 1
        if dd is None or dd == j + 1:
            raise LostAnchor(f'fn {fi.item.name}: R-HOIST needs a range with a start expression')
        lo = src[toks[j + 1].start:toks[dd].start].strip()
        edits.append((toks[lp['start']].start, toks[lp['start']].start, f'let __s{a} = {lo}; ', 'R-HOIST'))
        edits.append((toks[j + 1].start, toks[dd].start, f'__s{a}', 'R-HOIST'))
    return edits


def rw_letchain(fi, args, spec=None):
    """R-LETCHAIN: `if let P = E && C { B }` (no else)  ->  `if let P = E { if C { B } }`."""
    toks = fi.toks
    edits = []
    i = fi.item.body_open + 1
    while i < fi.item.body_close:
        if is_id(toks[i], 'if') and is_id(toks[i + 1], 'let'):
            j = i + 2
            amps = []
            while not is_p(toks[j], '{'):
                if toks[j].kind == 'punct' and toks[j].text in ('(', '['):
                    j = match_close(toks, j)
                elif is_p(toks[j], '&') and is_p(toks[j + 1], '&') and toks[j + 1].start == toks[j].end:
                    amps.append(j)
                    j += 1
                j += 1
            if amps:
                k = match_close(toks, j)
                if is_id(toks[k + 1], 'else'):
                    raise LostAnchor(f'fn {fi.item.name}: R-LETCHAIN cannot rewrite a let-chain with an else branch')
                for a in amps:
                    edits.append((toks[a].start, toks[a + 1].end, '{ if', 'R-LETCHAIN'))
                edits.append((toks[k].end, toks[k].end, ' }' * len(amps), 'R-LETCHAIN'))
        i += 1
    if not edits:
        raise LostAnchor(f'fn {fi.item.name}: R-LETCHAIN did not fire')
    return edits


def rw_iter(fi, args, spec=None):
    """R-ITER: `for P in E {` -> `for P in __itK: E {` : names Verus's ghost iterator of loop K so that
    invariants can mention its position. Purely an annotation (erased with the other ghost code)."""
    toks = fi.toks
    edits = []
    for a in args:
        lp = fi.loops[int(a)]
        if lp['kind'] != 'for':
            raise LostAnchor(f'fn {fi.item.name}: R-ITER on a non-for loop')
        j = lp['kw'] + 1
        while not is_id(toks[j], 'in'):
            j += 1
        edits.append((toks[j].end, toks[j].end, f' __it{a}:', 'R-ITER'))
    return edits


def rw_cuttail(fi, args, spec=None):
    """R-CUTTAIL J: drop everything after the top-level statement of the body that contains `return J`
    and put `vc_unreachable()` (requires false) there: the remainder is NOT verified and must be
    shown unreachable from the contracts."""
    toks = fi.toks
    it = fi.item
    r = fi.returns[int(args[0])]
    i = it.body_open + 1
    stmt_end = None
    while i < it.body_close:
        t = toks[i]
        j = i
        # advance to end of this top-level statement
        while j < it.body_close:
            tj = toks[j]
            if tj.kind == 'punct' and tj.text in ('(', '['):
                j = match_close(toks, j)
            elif is_p(tj, '{'):
                j = match_close(toks, j)
                nxt = toks[j + 1]
                if not (is_id(nxt, 'else') or is_p(nxt, '.') or is_p(nxt, '?') or is_p(nxt, ';')):
                    break
            elif is_p(tj, ';'):
                break
            j += 1
        if i <= r <= j:
            stmt_end = j
            break
        i = j + 1
    if stmt_end is None:
        raise LostAnchor(f'fn {it.name}: R-CUTTAIL could not find the statement of return {args[0]}')
    return [(toks[stmt_end].end, toks[it.body_close].start, '\n        vc_unreachable()\n    ', 'R-CUTTAIL')]


def _split_args(toks, lo, hi):
    """split toks[lo:hi] at top-level commas; returns list of (a, b) token index ranges"""
    out = []
    a = lo
    j = lo
    depth = 0
    while j < hi:
        t = toks[j]
        if t.kind == 'punct' and t.text in ('(', '[', '{'):
            j = match_close(toks, j)
        elif is_p(t, ',') :
            out.append((a, j))
            a = j + 1
        j += 1
    if a < hi:
        out.append((a, hi))
    return out


def rw_assert(fi, args, spec=None):
    """R-ASSERT: `assert!(C, msg..);` -> `if !(C) { vc_panic(); }` ; `assert_eq!(A, B, msg..);` ->
    `if !((A) == (B)) { vc_panic(); }` ; `assert_ne!` likewise.  `vc_panic()` never returns (a panic is
    divergence: partial correctness), so C is known afterwards exactly as in the real code."""
    toks = fi.toks
    src = fi.sf.src
    edits = []
    i = fi.item.body_open + 1
    while i < fi.item.body_close:
        t = toks[i]
        if t.kind == 'id' and t.text in ('assert', 'assert_eq', 'assert_ne') and is_p(toks[i + 1], '!') and is_p(toks[i + 2], '('):
            k = match_close(toks, i + 2)
            parts = _split_args(toks, i + 3, k)
            tx = lambda ab: src[toks[ab[0]].start:toks[ab[1] - 1].end]
            if t.text == 'assert':
                cond = f'({tx(parts[0])})'
            elif t.text == 'assert_eq':
                cond = f'(({tx(parts[0])}) == ({tx(parts[1])}))'
            else:
                cond = f'(({tx(parts[0])}) != ({tx(parts[1])}))'
            end = k
            edits.append((t.start, toks[end].end, f'if !{cond} {{ vc_panic(); }}', 'R-ASSERT'))
            i = k
        i += 1
    if not edits:
        raise LostAnchor(f'fn {fi.item.name}: R-ASSERT did not fire')
    return edits


def rw_then(fi, args, spec=None):
    """R-THEN: `B.then(|| E)` -> `if B { Some(E) } else { None }` (B is the postfix chain before .then)"""
    toks = fi.toks
    src = fi.sf.src
    edits = []
    i = fi.item.body_open + 1
    while i < fi.item.body_close:
        if is_p(toks[i], '.') and is_id(toks[i + 1], 'then') and is_p(toks[i + 2], '(') and is_p(toks[i + 3], '|') and is_p(toks[i + 4], '|'):
            k = match_close(toks, i + 2)
            # receiver: scan back over ident / . / () / [] chain
            j = i - 1
            while True:
                t = toks[j]
                if t.kind == 'punct' and t.text in (')', ']'):
                    # find matching open
                    depth = 0
                    while True:
                        if toks[j].kind == 'punct' and toks[j].text in (')', ']'):
                            depth += 1
                        elif toks[j].kind == 'punct' and toks[j].text in ('(', '['):
                            depth -= 1
                            if depth == 0:
                                break
                        j -= 1
                    j -= 1
                    continue
                if t.kind == 'id' and (is_p(toks[j - 1], '.')):
                    j -= 2
                    continue
                if t.kind == 'id':
                    break
                raise LostAnchor(f'fn {fi.item.name}: R-THEN cannot delimit the receiver')
            edits.append((toks[j].start, toks[j].start, 'if ', 'R-THEN'))
            edits.append((toks[i].start, toks[i + 4].end, ' { Some(', 'R-THEN'))
            edits.append((toks[k].start, toks[k].end, ') } else { None }', 'R-THEN'))
            i = k
        i += 1
    if not edits:
        raise LostAnchor(f'fn {fi.item.name}: R-THEN did not fire')
    return edits


def rw_unwrap_or_else(fi, args, spec=None):
    """R-UNWRAPORELSE: `E.unwrap_or_else(|| BLOCK)` -> `match E { Some(__v) => __v, None => BLOCK }`
    (E = the postfix chain before .unwrap_or_else, starting at the beginning of the statement/expression)."""
    toks = fi.toks
    src = fi.sf.src
    edits = []
    i = fi.item.body_open + 1
    while i < fi.item.body_close:
        if is_p(toks[i], '.') and is_id(toks[i + 1], 'unwrap_or_else') and is_p(toks[i + 2], '(') and is_p(toks[i + 3], '|') and is_p(toks[i + 4], '|'):
            k = match_close(toks, i + 2)
            s0 = find_stmt_start(toks, i, fi.item.body_open)
            edits.append((toks[s0].start, toks[s0].start, 'match ', 'R-UNWRAPORELSE'))
            edits.append((toks[i].start, toks[i + 4].end, ' { Some(__v) => __v, None => ', 'R-UNWRAPORELSE'))
            edits.append((toks[k].start, toks[k].end, ' }', 'R-UNWRAPORELSE'))
            i = k
        i += 1
    if not edits:
        raise LostAnchor(f'fn {fi.item.name}: R-UNWRAPORELSE did not fire')
    return edits


def rw_mapcollect(fi, args, spec=None):
    """R-MAPCOLLECT [pat] [via=M] [into]: `X.iter().map(|a| E).collect::<Vec<_>>()` -> index loop pushing E for every element
    of X in order. The loop's invariant comes from the unit (`at mapcollect K spec`). `pat`: the closure parameter may be
    a tuple pattern (bound with `let PAT = &src[k]`); `via=M`: the elements are read through the stub accessor `X.M()`
    (a collection stub has no slice view of its own); `into`: the target of `collect()` is not a Vec - the vector built
    by the loop is handed to `vc_collect_vec` (see R-INTOCOLLECT)."""
    toks = fi.toks
    src = fi.sf.src
    edits = []
    i = fi.item.body_open + 1
    n = 0
    while i < fi.item.body_close:
        if is_p(toks[i], '.') and is_id(toks[i + 1], 'iter') and is_p(toks[i + 2], '(') and is_p(toks[i + 3], ')') \
                and is_p(toks[i + 4], '.') and is_id(toks[i + 5], 'map') and is_p(toks[i + 6], '(') and is_p(toks[i + 7], '|'):
            k = match_close(toks, i + 6)
            # closure param: single identifier, or (with the `pat` argument) a tuple pattern of identifiers
            b2 = i + 8
            while not is_p(toks[b2], '|'):
                if toks[b2].kind == 'punct' and toks[b2].text in ('(', '['):
                    b2 = match_close(toks, b2)
                b2 += 1
            if not ((b2 == i + 9 and toks[i + 8].kind == 'id') or 'pat' in args):
                raise LostAnchor(f'fn {fi.item.name}: R-MAPCOLLECT needs a single-variable closure')
            var = src[toks[i + 8].start:toks[b2].start].strip()
            if spec is not None:
                for rule2, args2 in spec.rewrites:
                    if rule2 == 'R-RENAME':
                        var = re.sub(r'\b' + re.escape(args2[0]) + r'\b', args2[1], var)
            # after `)`: .collect::<Vec<_>>()
            j = k + 1
            if not (is_p(toks[j], '.') and is_id(toks[j + 1], 'collect')):
                i += 1
                continue
            while not is_p(toks[j], '('):
                j += 1
            end = match_close(toks, j)
            # receiver X: scan back ident chain
            r = i - 1
            while toks[r].kind == 'id' and is_p(toks[r - 1], '.'):
                r -= 2
            if toks[r].kind != 'id':
                raise LostAnchor(f'fn {fi.item.name}: R-MAPCOLLECT cannot delimit the receiver')
            inv = ''
            after = ''
            bend = ''
            bstart = ''
            if spec is not None:
                for anchor, text, org in spec.inserts:
                    if anchor == f'mapcollect {n} spec':
                        inv = text
                    if anchor == f'mapcollect {n} body-end':
                        bend = text
                    if anchor == f'mapcollect {n} body-start':
                        bstart = text
                    if anchor == f'mapcollect {n} after-collect':
                        after = text
            via = ''.join('.' + a[4:] + '()' for a in args if a.startswith('via='))
            into = 'vc_collect_vec(' if 'into' in args else ''
            rty = ''.join(': ' + a[4:] for a in args if a.startswith('rty='))
            vty = ''.join(': Vec<' + a[3:] + '>' for a in args if a.startswith('ty='))
            edits.append((toks[r].start, toks[r].start, f'{{ let __src{n} = ', 'R-MAPCOLLECT'))
            edits.append((toks[i].start, toks[b2].end,
                          f'{via}; let mut __v{n}{vty} = Vec::new(); let mut __k{n}: usize = 0;\n#[verifier::loop_isolation(false)]\nwhile __k{n} < __src{n}.len()\n{inv}\n{{ let {var} = &__src{n}[__k{n}];\n{bstart}\nlet __e{n} = ', 'R-MAPCOLLECT'))
            edits.append((toks[k].start, toks[end].end, f'; __v{n}.push(__e{n}); __k{n} += 1;\n{bend}\n}} let __r{n}{rty} = {into}__v{n}{")" if into else ""};\n{after}\n__r{n} }}', 'R-MAPCOLLECT'))
            n += 1
            i = end
        i += 1
    if not edits:
        raise LostAnchor(f'fn {fi.item.name}: R-MAPCOLLECT did not fire')
    return edits


def rw_rename(fi, args, spec=None):
    """R-RENAME a b: rename every identifier token `a` of the function to `b` (needed when a variable is
    called `old`, which is a keyword of the specification language)."""
    a, b = args[0], args[1]
    toks = fi.toks
    edits = []
    for i in range(fi.item.kw, fi.item.body_close):
        t = toks[i]
        if t.kind == 'id' and t.text == a and not is_p(toks[i - 1], '.'):
            edits.append((t.start, t.end, b, 'R-RENAME'))
    if not edits:
        raise LostAnchor(f'fn {fi.item.name}: R-RENAME did not fire')
    return edits


def rw_enum(fi, args, spec=None):
    """R-ENUM K: `for (I, P) in X[A..B].iter().enumerate() {` ->
    `let mut __jK: usize = 0; let __nK = (B) - (A); while __jK < __nK { let I = __jK; let P = &X[(A) + __jK]; __jK += 1;`
    (index loop in disguise; the increment comes first so that `continue` keeps its meaning)."""
    toks = fi.toks
    src = fi.sf.src
    edits = []
    for a in args:
        lp = fi.loops[int(a)]
        if lp['kind'] != 'for':
            raise LostAnchor(f'fn {fi.item.name}: R-ENUM on a non-for loop')
        i = lp['kw']
        if not is_p(toks[i + 1], '('):
            raise LostAnchor(f'fn {fi.item.name}: R-ENUM needs a `(i, pat)` pattern')
        pk = match_close(toks, i + 1)
        parts = _split_args(toks, i + 2, pk)
        ivar = src[toks[parts[0][0]].start:toks[parts[0][1] - 1].end]
        pat = src[toks[parts[1][0]].start:toks[pk - 1].end]
        j = pk + 1
        if not is_id(toks[j], 'in'):
            raise LostAnchor(f'fn {fi.item.name}: R-ENUM: expected `in`')
        # X [ A .. B ] . iter ( ) . enumerate ( )
        k = j + 1
        while k < lp['open'] and not is_p(toks[k], '['):
            k += 1
        if k >= lp['open']:
            raise LostAnchor(f'fn {fi.item.name}: R-ENUM needs X[A..B].iter().enumerate()')
        recv = src[toks[j + 1].start:toks[k].start].strip()
        kc = match_close(toks, k)
        dd = None
        q = k + 1
        while q < kc:
            if toks[q].kind == 'punct' and toks[q].text in ('(', '['):
                q = match_close(toks, q)
            elif is_p(toks[q], '.') and is_p(toks[q + 1], '.') and toks[q + 1].start == toks[q].end:
                dd = q
                break
            q += 1
        if dd is None:
            raise LostAnchor(f'fn {fi.item.name}: R-ENUM needs a range index')
        lo = src[toks[k + 1].start:toks[dd].start].strip() or '0'
        hi = src[toks[dd + 2].start:toks[kc].start].strip()
        tail = norm(toks, kc + 1, lp['open'])
        if tail.replace(' ', '') != '.iter().enumerate()':
            raise LostAnchor(f'fn {fi.item.name}: R-ENUM: unexpected iterator chain `{tail}`')
        n = a
        edits.append((toks[lp['start']].start, toks[lp['start']].start, f'let mut __j{n}: usize = 0; let __n{n}: usize = ({hi}) - ({lo});\n#[verifier::loop_isolation(false)]\n', 'R-ENUM'))
        edits.append((toks[i].start, toks[lp['open']].start, f'while __j{n} < __n{n} ', 'R-ENUM'))
        edits.append((toks[lp['open']].end, toks[lp['open']].end, f' let {ivar} = __j{n}; let {pat} = &{recv}[({lo}) + __j{n}]; __j{n} += 1;', 'R-ENUM'))
    return edits


def rw_clospat(fi, args, spec=None):
    """R-CLOSPAT: `|PAT| E` with a non-variable pattern -> `|__p: T| -> (r: R) <spec> { let PAT = __p; E }` (closure
    literals whose single parameter is a pattern; E extends to the closing delimiter of the enclosing call).
    args: (T, R) pairs for the pattern closures in source order; the spec comes from `at closure K spec` where K is
    the ordinal of the closure literal among ALL closure literals of the function."""
    toks = fi.toks
    src = fi.sf.src
    edits = []
    n = 0
    for K, cl in enumerate(fi.closures):
        b1, b2 = cl['bar1'], cl['bar2']
        if b2 == b1 + 1:
            continue
        if b2 == b1 + 2 and toks[b1 + 1].kind == 'id':
            continue
        pat = src[toks[b1 + 1].start:toks[b2].start].strip()
        if ':' in pat and not pat.startswith('('):
            continue
        j = b2 + 1
        while True:
            t = toks[j]
            if t.kind == 'punct' and t.text in ('(', '[', '{'):
                j = match_close(toks, j)
            elif t.kind == 'punct' and t.text in (')', ',', ']', '}', ';'):
                break
            j += 1
        body = src[toks[b2 + 1].start:toks[j].start].strip()
        pty = args[2 * n] if len(args) > 2 * n else '_'
        rty = args[2 * n + 1] if len(args) > 2 * n + 1 else '_'
        sp = ''
        if spec is not None:
            for anchor, text, org in spec.inserts:
                if anchor == f'closure {K} spec':
                    sp = '\n' + text + '\n'
        edits.append((toks[b1].start, toks[j].start, f'|__p: {pty}| -> (r: {rty}){sp} {{ let {pat} = __p; {body} }}', 'R-CLOSPAT'))
        n += 1
    if not edits:
        raise LostAnchor(f'fn {fi.item.name}: R-CLOSPAT did not fire')
    return edits


def rw_intovec(fi, args, spec=None):
    """R-INTOVEC K: `for P in X {` -> `for P in X.vc_into_vec() {` : iterate the vector of the elements of a
    (stub) set in its iteration order instead of the set itself (the stub has no IntoIterator)."""
    toks = fi.toks
    edits = []
    for a in args:
        lp = fi.loops[int(a)]
        if lp['kind'] != 'for':
            raise LostAnchor(f'fn {fi.item.name}: R-INTOVEC on a non-for loop')
        edits.append((toks[lp['open'] - 1].end, toks[lp['open'] - 1].end, '.vc_into_vec()', 'R-INTOVEC'))
    return edits


def rw_itermut(fi, args, spec=None):
    """R-ITERMUT K: `for P in X.iter_mut() {` -> index loop with `let P = &mut X[__jK];`
       `for (I, P) in X.iter_mut().enumerate() {` -> likewise with `let I = __jK;` (index loops in disguise)."""
    toks = fi.toks
    src = fi.sf.src
    edits = []
    for a in args:
        lp = fi.loops[int(a)]
        if lp['kind'] != 'for':
            raise LostAnchor(f'fn {fi.item.name}: R-ITERMUT on a non-for loop')
        i = lp['kw']
        j = i + 1
        while not is_id(toks[j], 'in'):
            if toks[j].kind == 'punct' and toks[j].text == '(':
                j = match_close(toks, j)
            j += 1
        pat = src[toks[i + 1].start:toks[j].start].strip()
        if spec is not None:
            for rule2, args2 in spec.rewrites:
                if rule2 == 'R-RENAME':
                    pat = re.sub(r'\b' + re.escape(args2[0]) + r'\b', args2[1], pat)
        chain = norm(toks, j + 1, lp['open']).replace(' ', '')
        enum = chain.endswith('.iter_mut().enumerate()')
        valsmut = chain.endswith('.values_mut()')
        if not (enum or valsmut or chain.endswith('.iter_mut()')):
            raise LostAnchor(f'fn {fi.item.name}: R-ITERMUT: unexpected iterator chain `{chain}`')
        # receiver text: everything before `.iter_mut`
        k = j + 1
        while not (is_p(toks[k], '.') and is_id(toks[k + 1], 'values_mut' if valsmut else 'iter_mut')):
            k += 1
        recv = src[toks[j + 1].start:toks[k].start].strip()
        n = a
        if valsmut:
            # `for P in X.values_mut()`: the values are reached through the stub accessor X.vc_values_mut() (a &mut Vec)
            edits.append((toks[lp['start']].start, toks[lp['start']].start, f'let __vm{n} = {recv}.vc_values_mut(); ', 'R-ITERMUT'))
            recv = f'__vm{n}'
        if enum:
            m = re.match(r'^\(\s*([A-Za-z_][A-Za-z0-9_]*)\s*,\s*(.*)\)$', pat, re.S)
            if not m:
                raise LostAnchor(f'fn {fi.item.name}: R-ITERMUT: expected `(i, pat)`')
            binds = f'let {m.group(1)} = __j{n}; let {m.group(2).strip()} = &mut {recv}[__j{n}];'
        else:
            binds = f'let {pat} = &mut {recv}[__j{n}];'
        edits.append((toks[lp['start']].start, toks[lp['start']].start, f'let mut __j{n}: usize = 0; let __n{n}: usize = {recv}.len();\n#[verifier::loop_isolation(false)]\n', 'R-ITERMUT'))
        edits.append((toks[i].start, toks[lp['open']].start, f'while __j{n} < __n{n} ', 'R-ITERMUT'))
        edits.append((toks[lp['open']].end, toks[lp['open']].end, f' {binds} __j{n} += 1;', 'R-ITERMUT'))
    return edits


def rw_closann(fi, args, spec=None):
    """R-CLOSANN K T R: annotate closure literal K `|x| E` as `|x: T| -> (r: R) <spec> { E }` so that the unit can give
    it an `ensures` (`at closure K spec`). Pure annotation."""
    toks = fi.toks
    src = fi.sf.src
    edits = []
    k = int(args[0])
    pty, rty = args[1], args[2]
    cl = fi.closures[k]
    b1, b2 = cl['bar1'], cl['bar2']
    if not (b2 == b1 + 2 and toks[b1 + 1].kind == 'id'):
        raise LostAnchor(f'fn {fi.item.name}: R-CLOSANN needs a single-variable closure')
    var = toks[b1 + 1].text
    j = b2 + 1
    while True:
        t = toks[j]
        if t.kind == 'punct' and t.text in ('(', '[', '{'):
            j = match_close(toks, j)
        elif t.kind == 'punct' and t.text in (')', ',', ']', '}', ';'):
            break
        j += 1
    body = src[toks[b2 + 1].start:toks[j].start].strip()
    sp = ''
    if spec is not None:
        for anchor, text, org in spec.inserts:
            if anchor == f'closure {k} spec':
                sp = '\n' + text + '\n'
    return [(toks[b1].start, toks[j].start, f'|{var}: {pty}| -> (r: {rty}){sp} {{ {body} }}', 'R-CLOSANN')]


def rw_hoistend(fi, args, spec=None):
    """R-HOISTEND K: `for P in A..B {` -> `let __eK = B; for P in A..__eK {` (the range end is evaluated once before
    the loop in Rust; Verus cannot relate a non-pure end expression to the loop counter)."""
    toks = fi.toks
    src = fi.sf.src
    edits = []
    for a in args:
        lp = fi.loops[int(a)]
        if lp['kind'] != 'for':
            raise LostAnchor(f'fn {fi.item.name}: R-HOISTEND on a non-for loop')
        j = lp['kw'] + 1
        while not is_id(toks[j], 'in'):
            j += 1
        k = j + 1
        dd = None
        while k < lp['open']:
            if toks[k].kind == 'punct' and toks[k].text in ('(', '['):
                k = match_close(toks, k)
            elif is_p(toks[k], '.') and is_p(toks[k + 1], '.') and toks[k + 1].start == toks[k].end:
                dd = k
                break
            k += 1
        if dd is None or is_p(toks[dd + 2], '='):
            raise LostAnchor(f'fn {fi.item.name}: R-HOISTEND needs a half-open range')
        hi = src[toks[dd + 2].start:toks[lp['open']].start].strip()
        edits.append((toks[lp['start']].start, toks[lp['start']].start, f'let __e{a} = {hi}; ', 'R-HOISTEND'))
        edits.append((toks[dd + 2].start, toks[lp['open']].start, f'__e{a} ', 'R-HOISTEND'))
    return edits


def rw_paramname(fi, args, spec=None):
    """R-PARAMNAME: a function parameter written `_: T` is given a name (`__unusedK: T`); the verus! macro needs one."""
    toks = fi.toks
    it = fi.item
    j = it.kw
    while not is_p(toks[j], '('):
        j += 1
    k = match_close(toks, j)
    edits = []
    n = 0
    for (a, b) in _split_args(toks, j + 1, k):
        if is_id(toks[a], '_') and is_p(toks[a + 1], ':'):
            edits.append((toks[a].start, toks[a].end, f'__unused{n}', 'R-PARAMNAME'))
            n += 1
    if not edits:
        raise LostAnchor(f'fn {it.name}: R-PARAMNAME did not fire')
    return edits


def rw_fnparam(fi, args, spec=None):
    """R-FNPARAM NAME TYPE: a parameter `NAME: impl FnMut(..) -> ..` (a closure whose arguments include `&mut`, which
    Verus cannot give a contract) gets the stub type TYPE, and every call `NAME(ARGS)` in the body becomes
    `NAME.vc_call(ARGS)`; TYPE::vc_call carries the closure's assumed contract (same idea as R-DYNCALL)."""
    toks = fi.toks
    it = fi.item
    name, ty = args[0], args[1]
    j = it.kw
    while not is_p(toks[j], '('):
        j += 1
    k = match_close(toks, j)
    edits = []
    for (a, b) in _split_args(toks, j + 1, k):
        c = a
        if is_id(toks[c], 'mut'):
            c += 1
        if is_id(toks[c], name) and is_p(toks[c + 1], ':'):
            if not is_id(toks[c + 2], 'impl'):
                raise LostAnchor(f'fn {it.name}: R-FNPARAM: parameter {name} is not an `impl Fn..`')
            edits.append((toks[c + 2].start, toks[b - 1].end, ty, 'R-FNPARAM'))
    if not edits:
        raise LostAnchor(f'fn {it.name}: R-FNPARAM: no parameter {name}')
    ncalls = 0
    for i in range(it.body_open + 1, it.body_close):
        if is_id(toks[i], name) and is_p(toks[i + 1], '(') and not is_p(toks[i - 1], '.'):
            edits.append((toks[i].end, toks[i].end, '.vc_call', 'R-FNPARAM'))
            ncalls += 1
    if ncalls == 0:
        raise LostAnchor(f'fn {it.name}: R-FNPARAM: {name} is never called')
    return edits


def rw_iterall(fi, args, spec=None):
    """R-ITERALL: `X.iter().all(CLOSURE)` (X an identifier) -> `vc_all(X, CLOSURE)`; Verus has no specification for
    iterator adapters. `vc_all` (prelude/std_extra.vs) is a verified loop with the meaning of Iterator::all for a
    closure whose result is a function of the element."""
    toks = fi.toks
    edits = []
    i = fi.item.body_open + 1
    while i + 7 < fi.item.body_close:
        if toks[i].kind == 'id' and not is_p(toks[i - 1], '.') and is_p(toks[i + 1], '.') and is_id(toks[i + 2], 'iter') \
                and is_p(toks[i + 3], '(') and is_p(toks[i + 4], ')') and is_p(toks[i + 5], '.') and is_id(toks[i + 6], 'all') and is_p(toks[i + 7], '('):
            edits.append((toks[i].start, toks[i + 7].end, f'vc_all({toks[i].text}, ', 'R-ITERALL'))
            i += 8
            continue
        i += 1
    if not edits:
        raise LostAnchor(f'fn {fi.item.name}: R-ITERALL did not fire')
    return edits


def rw_intocollect(fi, args, spec=None):
    """R-INTOCOLLECT: `X.into_iter().collect()` (X an identifier naming a Vec) -> `vc_collect_vec(X)`. Verus has no
    specification for Iterator::collect; `vc_collect_vec` is a stub carrying the ASSUMED contract of the target
    collection's FromIterator impl (the target type is inferred from the assignment exactly as for `collect`)."""
    toks = fi.toks
    edits = []
    i = fi.item.body_open + 1
    while i + 8 < fi.item.body_close:
        if toks[i].kind == 'id' and not is_p(toks[i - 1], '.') and is_p(toks[i + 1], '.') and is_id(toks[i + 2], 'into_iter') \
                and is_p(toks[i + 3], '(') and is_p(toks[i + 4], ')') and is_p(toks[i + 5], '.') and is_id(toks[i + 6], 'collect') \
                and is_p(toks[i + 7], '(') and is_p(toks[i + 8], ')'):
            edits.append((toks[i].start, toks[i + 8].end, f'vc_collect_vec({toks[i].text})', 'R-INTOCOLLECT'))
            i += 9
            continue
        i += 1
    if not edits:
        raise LostAnchor(f'fn {fi.item.name}: R-INTOCOLLECT did not fire')
    return edits


def rw_update(fi, args, spec=None):
    """R-UPDATE K..: the statement `RECV.update(|_, P| { BODY });` whose closure is closure K of the function (a closure
    with a `&mut` parameter: no Verus contract possible) becomes the loop IndexCatalog::update is
    (`for (k, i) in entries { f(k, i) }`) over the stub accessor `vc_entries_mut()`:
        { let __uK = RECV.vc_entries_mut(); let mut __jK: usize = 0; let __nK: usize = __uK.len();
          while __jK < __nK <text spliced `at closure K spec`: the loop invariant> { let P = &mut __uK[__jK].1; BODY __jK += 1; } }"""
    toks = fi.toks
    src = fi.sf.src
    edits = []
    for a in args:
        cl = fi.closures[int(a)]
        b1, b2 = cl['bar1'], cl['bar2']
        # `RECV . update (` precedes bar1
        if not (is_p(toks[b1 - 1], '(') and is_id(toks[b1 - 2], 'update') and is_p(toks[b1 - 3], '.')):
            raise LostAnchor(f'fn {fi.item.name}: R-UPDATE: closure {a} is not the argument of `.update(`')
        # receiver: back to the start of the statement
        r = b1 - 4
        while not (toks[r].kind == 'punct' and toks[r].text in (';', '{', '}')):
            r -= 1
        recv = src[toks[r + 1].start:toks[b1 - 3].start].strip()
        params = [x for x in _split_args(toks, b1 + 1, b2)]
        if len(params) != 2 or not is_id(toks[params[0][0]], '_'):
            raise LostAnchor(f'fn {fi.item.name}: R-UPDATE: expected closure parameters `|_, P|`')
        pat = src[toks[params[1][0]].start:toks[params[1][1] - 1].end].strip()
        if not is_p(toks[b2 + 1], '{'):
            raise LostAnchor(f'fn {fi.item.name}: R-UPDATE: closure body is not a block')
        bo = b2 + 1
        bc = match_close(toks, bo)
        close_paren = bc + 1
        if not (is_p(toks[close_paren], ')') and is_p(toks[close_paren + 1], ';')):
            raise LostAnchor(f'fn {fi.item.name}: R-UPDATE: `.update(..)` is not a statement')
        n = a
        sp = ''
        if spec is not None:
            for anchor, text, org in spec.inserts:
                if anchor == f'closure {a} spec':
                    sp = '\n' + text + '\n'
        edits.append((toks[r + 1].start, toks[b2].end,
                      f'{{ let __u{n} = {recv}.vc_entries_mut(); let mut __j{n}: usize = 0; let __n{n}: usize = __u{n}.len();\n#[verifier::loop_isolation(false)]\nwhile __j{n} < __n{n} {sp}', 'R-UPDATE'))
        edits.append((toks[bo].end, toks[bo].end, f' let {pat} = &mut __u{n}[__j{n}].1; ', 'R-UPDATE'))
        edits.append((toks[bc].start, toks[bc].start, f' __j{n} += 1; ', 'R-UPDATE'))
        edits.append((toks[close_paren].start, toks[close_paren + 1].end, ' }', 'R-UPDATE'))
    return edits


def rw_sidechan(fi, args, spec=None):
    """R-SIDECHAN CHAN DB: `self.CHAN.lock().unwrap().take()` -> `vc_take_panic(&self.CHAN, &mut self.DB)`. The side channel
    (`Arc<Mutex<Option<String>>>`) is written from inside the database (panic functions registered as external
    functions); interior mutability behind `&self` cannot carry ghost state in Verus, so the pending message is ghost
    state of the Database and the read is spelled as an operation on it."""
    toks = fi.toks
    chan, db = args[0], args[1]
    pat = ['self', '.', chan, '.', 'lock', '(', ')', '.', 'unwrap', '(', ')', '.', 'take', '(', ')']
    edits = []
    i = fi.item.body_open + 1
    while i + len(pat) <= fi.item.body_close:
        if all(toks[i + k].text == pat[k] for k in range(len(pat))):
            edits.append((toks[i].start, toks[i + len(pat) - 1].end, f'vc_take_panic(&self.{chan}, &mut self.{db})', 'R-SIDECHAN'))
            i += len(pat)
            continue
        i += 1
    if not edits:
        raise LostAnchor(f'fn {fi.item.name}: R-SIDECHAN did not fire')
    return edits


def rw_forstep(fi, args, spec=None):
    """R-FORSTEP K: `for P in (A..B).step_by(S) {` -> `let mut __iK = A; let __eK = B; while __iK < __eK { let P = __iK;
    BODY __iK += S; }` (the loop `StepBy<Range>` is; the body must not `continue`, checked). Verus has no specification
    for `step_by`."""
    toks = fi.toks
    src = fi.sf.src
    edits = []
    for a in args:
        lp = fi.loops[int(a)]
        if lp['kind'] != 'for':
            raise LostAnchor(f'fn {fi.item.name}: R-FORSTEP on a non-for loop')
        i = lp['kw']
        j = i + 1
        while not is_id(toks[j], 'in'):
            j += 1
        pat = src[toks[i + 1].start:toks[j].start].strip()
        m = re.match(r'^\((.+?)\.\.(.+?)\)\.step_by\((.+?)\)$', norm(toks, j + 1, lp['open']).replace(' ', ''))
        if not m:
            raise LostAnchor(f'fn {fi.item.name}: R-FORSTEP: expected `(A..B).step_by(S)`')
        lo, hi, st = m.group(1), m.group(2), m.group(3)
        for q in range(lp['open'], lp['close']):
            if is_id(toks[q], 'continue'):
                raise LostAnchor(f'fn {fi.item.name}: R-FORSTEP: loop body contains `continue`')
        n = a
        edits.append((toks[lp['start']].start, toks[lp['start']].start, f'let mut __i{n}: usize = {lo}; let __e{n}: usize = {hi};\n', 'R-FORSTEP'))
        edits.append((toks[i].start, toks[lp['open']].start, f'while __i{n} < __e{n} ', 'R-FORSTEP'))
        edits.append((toks[lp['open']].end, toks[lp['open']].end, f' let {pat} = __i{n};', 'R-FORSTEP'))
        edits.append((toks[lp['close']].start, toks[lp['close']].start, f' __i{n} += {st}; ', 'R-FORSTEP'))
    return edits


def rw_iterpairmut(fi, args, spec=None):
    """R-ITERPAIRMUT K: `for (A, B) in X.non_stale_mut() {` (an iterator of `(RowId, &mut [Value])`) -> index loop over the
    stub accessor `X.vc_non_stale_mut()` (`&mut Vec<(RowId, Vec<Value>)>`):
    `while __jK < __nK { let A = __vK[__jK].0; let B = &mut __vK[__jK].1; BODY __jK += 1; }` (no `continue` in BODY, checked)."""
    toks = fi.toks
    src = fi.sf.src
    edits = []
    for a in args:
        lp = fi.loops[int(a)]
        if lp['kind'] != 'for':
            raise LostAnchor(f'fn {fi.item.name}: R-ITERPAIRMUT on a non-for loop')
        i = lp['kw']
        j = i + 1
        while not is_id(toks[j], 'in'):
            if toks[j].kind == 'punct' and toks[j].text == '(':
                j = match_close(toks, j)
            j += 1
        pat = src[toks[i + 1].start:toks[j].start].strip()
        m = re.match(r'^\(\s*([A-Za-z_][A-Za-z0-9_]*)\s*,\s*([A-Za-z_][A-Za-z0-9_]*)\s*\)$', pat)
        chain = norm(toks, j + 1, lp['open']).replace(' ', '')
        if not m or not chain.endswith('.non_stale_mut()'):
            raise LostAnchor(f'fn {fi.item.name}: R-ITERPAIRMUT: expected `for (a, b) in X.non_stale_mut()`')
        recv = chain[:-len('.non_stale_mut()')]
        for q in range(lp['open'], lp['close']):
            if is_id(toks[q], 'continue'):
                raise LostAnchor(f'fn {fi.item.name}: R-ITERPAIRMUT: loop body contains `continue`')
        n = a
        edits.append((toks[lp['start']].start, toks[lp['start']].start, f'let __v{n} = {recv}.vc_non_stale_mut(); let mut __j{n}: usize = 0; let __n{n}: usize = __v{n}.len();\n', 'R-ITERPAIRMUT'))
        edits.append((toks[i].start, toks[lp['open']].start, f'while __j{n} < __n{n} ', 'R-ITERPAIRMUT'))
        edits.append((toks[lp['open']].end, toks[lp['open']].end, f' let {m.group(1)} = __v{n}[__j{n}].0; let {m.group(2)} = &mut __v{n}[__j{n}].1;', 'R-ITERPAIRMUT'))
        edits.append((toks[lp['close']].start, toks[lp['close']].start, f' __j{n} += 1; ', 'R-ITERPAIRMUT'))
    return edits


def rw_macro(fi, args, spec=None):
    """R-MACRO NAME: every statement `NAME!(a1, .., an);` in the function is replaced by the body of the
    `macro_rules! NAME { ($p1: expr, .., $pn: expr) => {{ BODY }}; }` definition found in the same source file, with
    `$pi` replaced textually by `ai` (what macro expansion does for `expr` fragments; the macro must have one arm)."""
    name = args[0]
    toks = fi.toks
    sf = fi.sf
    full = sf.full_src if hasattr(sf, 'full_src') else None
    src_all = open(os.path.join(REPO, sf.rel)).read()
    m = re.search(r'macro_rules!\s*' + re.escape(name) + r'\s*\{\s*\(([^)]*)\)\s*=>\s*\{\{(.*?)\}\};?\s*\}', src_all, re.S)
    if not m:
        raise LostAnchor(f'fn {fi.item.name}: R-MACRO: no single-arm `macro_rules! {name}` with a `{{{{ .. }}}}` body in {sf.rel}')
    params = [x.strip() for x in m.group(1).split(',') if x.strip()]
    pnames = []
    for prm in params:
        mm = re.match(r'^\$([A-Za-z_][A-Za-z0-9_]*)\s*:\s*expr$', prm)
        if not mm:
            raise LostAnchor(f'fn {fi.item.name}: R-MACRO: parameter `{prm}` is not an `expr` fragment')
        pnames.append(mm.group(1))
    body = m.group(2)
    edits = []
    i = fi.item.body_open + 1
    while i + 2 < fi.item.body_close:
        if is_id(toks[i], name) and is_p(toks[i + 1], '!') and is_p(toks[i + 2], '('):
            k = match_close(toks, i + 2)
            argl = [fi.sf.src[toks[a].start:toks[b - 1].end].strip() for (a, b) in _split_args(toks, i + 3, k)]
            if len(argl) != len(pnames):
                raise LostAnchor(f'fn {fi.item.name}: R-MACRO: `{name}!` called with {len(argl)} arguments')
            text = body
            for pn, av in zip(pnames, argl):
                text = re.sub(r'\$' + pn + r'\b', lambda _m, av=av: av, text)
            end = toks[k + 1].end if is_p(toks[k + 1], ';') else toks[k].end
            edits.append((toks[i].start, end, '{' + text + '}', 'R-MACRO'))
            i = k + 1
            continue
        i += 1
    if not edits:
        raise LostAnchor(f'fn {fi.item.name}: R-MACRO: `{name}!` is not used')
    return edits


def rw_forvec(fi, args, spec=None):
    """R-FORVEC K: `for P in X {` where X is a vector of Copy elements -> `let __vK = X; let mut __jK: usize = 0;
    while __jK < __vK.len() { let P = __vK[__jK]; __jK += 1; BODY }` (increment first, so `continue` keeps its meaning;
    Verus for-loops do not support `continue`)."""
    toks = fi.toks
    src = fi.sf.src
    edits = []
    for a in args:
        lp = fi.loops[int(a)]
        if lp['kind'] != 'for':
            raise LostAnchor(f'fn {fi.item.name}: R-FORVEC on a non-for loop')
        i = lp['kw']
        j = i + 1
        while not is_id(toks[j], 'in'):
            if toks[j].kind == 'punct' and toks[j].text == '(':
                j = match_close(toks, j)
            j += 1
        pat = src[toks[i + 1].start:toks[j].start].strip()
        expr = src[toks[j + 1].start:toks[lp['open']].start].strip()
        n = a
        edits.append((toks[lp['start']].start, toks[lp['start']].start, f'let __v{n} = {expr}; let mut __j{n}: usize = 0;\n', 'R-FORVEC'))
        edits.append((toks[i].start, toks[lp['open']].start, f'while __j{n} < __v{n}.len() ', 'R-FORVEC'))
        edits.append((toks[lp['open']].end, toks[lp['open']].end, f' let {pat} = __v{n}[__j{n}]; __j{n} += 1;', 'R-FORVEC'))
    return edits


def rw_dyncall(fi, args, spec=None):
    """R-DYNCALL: `(RECV)(ARGS)` (call of a `dyn Fn` object stored in a field) -> `RECV.vc_call(ARGS)`; Verus does not
    support `dyn Fn` types, the stub type of the field offers `vc_call` with the closure's assumed contract."""
    toks = fi.toks
    edits = []
    i = fi.item.body_open + 1
    while i < fi.item.body_close:
        if is_p(toks[i], '(') and not (toks[i - 1].kind == 'id' and toks[i - 1].text not in ('if', 'while', 'return', 'match', 'in', 'else')) \
                and not (toks[i - 1].kind == 'punct' and toks[i - 1].text in (')', ']', '>')) \
                and not (is_p(toks[i - 1], '!') and toks[i - 2].kind == 'id' and toks[i - 2].end == toks[i - 1].start):
            k = match_close(toks, i)
            if k + 1 < fi.item.body_close and is_p(toks[k + 1], '(') and toks[k + 1].start == toks[k].end:
                inner = fi.sf.src[toks[i + 1].start:toks[k].start].strip()
                if re.match(r'^[A-Za-z_][A-Za-z0-9_]*(\.[A-Za-z_][A-Za-z0-9_]*)+$', inner):
                    edits.append((toks[i].start, toks[k + 1].end, inner + '.vc_call(', 'R-DYNCALL'))
                    i = k + 1
        i += 1
    if not edits:
        raise LostAnchor(f'fn {fi.item.name}: R-DYNCALL did not fire')
    return edits


# rewrites that only respell a construct Verus rejects; when the construct is absent they have nothing to do
DESUGAR_ONLY = {'R-BOOLOP', 'R-ASSERT', 'R-THEN', 'R-UNWRAPORELSE', 'R-LETCHAIN', 'R-ITERALL', 'R-PARAMNAME', 'R-DYNCALL', 'R-SIDECHAN'}

REWRITES = {
    'R-DYNCALL': rw_dyncall,
    'R-FORVEC': rw_forvec,
    'R-FORSTEP': rw_forstep,
    'R-ITERPAIRMUT': rw_iterpairmut,
    'R-MACRO': rw_macro,
    'R-SIDECHAN': rw_sidechan,
    'R-UPDATE': rw_update,
    'R-ITERALL': rw_iterall,
    'R-INTOCOLLECT': rw_intocollect,
    'R-FNPARAM': rw_fnparam,
    'R-PARAMNAME': rw_paramname,
    'R-HOISTEND': rw_hoistend,
    'R-CLOSANN': rw_closann,
    'R-ITERMUT': rw_itermut,
    'R-INTOVEC': rw_intovec,
    'R-CLOSPAT': rw_clospat,
    'R-ENUM': rw_enum,
    'R-RENAME': rw_rename,
    'R-ASSERT': rw_assert,
    'R-THEN': rw_then,
    'R-UNWRAPORELSE': rw_unwrap_or_else,
    'R-MAPCOLLECT': rw_mapcollect,
    'R-CUTTAIL': rw_cuttail,
    'R-ITER': rw_iter,
    'R-LETCHAIN': rw_letchain,
    'R-HOIST': rw_hoist,
    'R-BOOLOP': rw_boolop,
    'R-FOR': rw_for_range,
}


# --------------------------------------------------------------------------------------------
# unit processing


class FnSpec:
    def __init__(self, name, unit_path, line):
        self.name = name
        self.ret = None
        self.canary = True
        self.rewrites = []
        self.inserts = []    # (anchor, text, (unit_path, line))
        self.opt_rewrites = set()   # indices into rewrites declared `rewrite?`
        self.opt_anchors = set()    # anchors declared `at?`
        self.unit_path = unit_path
        self.line = line
        self.emit_name = None


def canary_sig(sig_text):
    if re.search(r'\bensures\b', sig_text):
        return re.sub(r'\bensures\b', 'ensures false,', sig_text, count=1)
    m = re.search(r'\bdecreases\b', sig_text)
    if m:
        return sig_text[:m.start()] + 'ensures false,\n' + sig_text[m.start():]
    return sig_text.rstrip() + '\n    ensures false,\n'


class Generated:
    def __init__(self):
        self.out = Out()
        self.functions = []   # dict(name, qual, rel, line, hash, gen_start, gen_end, canary(bool), contract(bool))
        self.rewrites = []    # (rule, rel, line)
        self.dropped = {}
        self.clauses = []     # (fn, anchor, text)
        self.projected = []   # (rel, struct, dropped fields)


def emit_fn(gen, sf, item, spec, canary=False, qual='', in_trait=False):
    fi = FnInfo(sf, item)
    toks = sf.toks
    src = sf.src
    edits = strip_edits(sf, item.first, item.last)
    if not in_trait:
        edits += pub_edits(sf, item)
    if spec.ret:
        edits += ret_edit(sf, item, spec.ret)
    cur_shape = dict(loops=len(fi.loops), returns=len(fi.returns), breaks=len(fi.breaks), closures=len(fi.closures),
                     **({'semis': _top_semis(toks, item)} if any(a.split()[0] == 'after-semi' for a, _, _ in spec.inserts) else {}))
    # FALLBACK (opt-in): a function whose ordinal directives are all declared optional (`rewrite?`, `at?`) and whose
    # shape differs from the recorded one is checked against its plain contract, without those directives.
    fallback = False
    if (spec.opt_rewrites or spec.opt_anchors) and spec.unit_path:
        try:
            import json as _json
            rec = _json.load(open(os.path.join(os.path.dirname(spec.unit_path), 'shape.json'))).get(qual + item.name)
        except (OSError, ValueError):
            rec = None
        if rec is not None and rec != cur_shape:
            fallback = True
            spec = copy.copy(spec)
            spec.rewrites = [rw for k, rw in enumerate(spec.rewrites) if k not in spec.opt_rewrites]
            spec.inserts = [ins for ins in spec.inserts if ins[0] not in spec.opt_anchors]
            if not canary:
                gen.rewrites.append((f'FALLBACK fn {item.name}: shape {rec} -> {cur_shape}; optional directives dropped, plain contract checked', sf.rel, 0))
    for rule, args in spec.rewrites:
        if rule not in REWRITES:
            raise LostAnchor(f'unknown rewrite {rule}')
        try:
            edits += REWRITES[rule](fi, args, spec)
        except LostAnchor as e:
            # a pure desugaring that finds nothing to desugar is not needed: the text is then verified as it stands (if the
            # construct is there in a shape the rule does not recognise, Verus rejects it and the unit is UNDECIDED anyway)
            if rule in DESUGAR_ONLY and 'did not fire' in str(e):
                if not canary:
                    gen.rewrites.append((f'{rule} not needed in fn {item.name} (nothing to desugar)', sf.rel, 0))
                continue
            raise
    has_sig = False
    for anchor, text, org in spec.inserts:
        if anchor.startswith('mapcollect ') or anchor.startswith('closure '):
            continue
        off = fi.anchor_offset(anchor)
        if anchor == 'sig':
            has_sig = True
            if canary:
                text = canary_sig(text)
        e = (off, off, '\n' + text + '\n', ('unit', org[0], org[1] - 1))
        if anchor == 'attr' or anchor.startswith('before-loop'):
            edits.insert(0, e)
        else:
            edits.append(e)
    if canary and not has_sig:
        off = fi.anchor_offset('sig')
        edits.append((off, off, '\n    ensures false,\n', ('unit', spec.unit_path, spec.line)))
    if canary:
        nm = toks[item.kw + 1]
        edits.append((nm.start, nm.end, '__canary_' + item.name, 'R-CANARY'))
    # edits swallowed by a larger replacement (R-CUTTAIL) are dropped
    big = [e for e in edits if isinstance(e[3], str) and e[3] in ('R-CUTTAIL',)]
    for b in big:
        edits = [e for e in edits if e is b or not (b[0] <= e[0] and e[1] <= b[1])]
    # a rename that falls inside a piece of text another rewrite replaces is applied to the replacement text instead
    renames = [a for r, a in spec.rewrites if r == 'R-RENAME']
    if renames:
        out_edits = []
        swallowed = set()
        for b in edits:
            if b[3] == 'R-RENAME' or b[1] <= b[0] or not isinstance(b[3], str):
                continue
            inner = [e for e in edits if e[3] == 'R-RENAME' and b[0] <= e[0] and e[1] <= b[1]]
            if inner:
                swallowed.update(id(e) for e in inner)
        for b in edits:
            if id(b) in swallowed:
                continue
            if b[3] != 'R-RENAME' and b[1] > b[0] and isinstance(b[3], str) and any(b[0] <= e[0] and e[1] <= b[1] for e in edits if id(e) in swallowed):
                txt = b[2]
                for a in renames:
                    txt = re.sub(r'\b' + re.escape(a[0]) + r'\b', a[1], txt)
                b = (b[0], b[1], txt, b[3])
            out_edits.append(b)
        edits = out_edits
    start_line = gen.out.lineno()
    gen.out.nl()
    start_line = gen.out.lineno()
    apply_edits(src, toks[item.first].start, toks[item.last].end, edits, gen.out, sf.rel, line_base=sf.line_base)
    gen.out.nl()
    end_line = gen.out.lineno() - 1
    body = src[toks[item.first].start:toks[item.last].end]
    gen.functions.append(dict(
        name=('__canary_' if canary else '') + item.name, qual=qual, rel=sf.rel,
        line=line_of(src, toks[item.kw].start) + sf.line_base, hash=hashlib.sha256(body.encode()).hexdigest()[:16],
        gen_start=start_line, gen_end=end_line, canary=canary,
        contract=bool(spec.inserts), loops=len(fi.loops), bodiless=(item.body_open is None),
        shape=cur_shape, fallback=fallback, used_kinds=_used_kinds(spec),
        ordinal=any(a.split()[0] in ('loop', 'before-loop', 'after-loop', 'return', 'break', 'closure', 'mapcollect', 'after-semi') for a, _, _ in spec.inserts)
                or any(r in ('R-FOR', 'R-ENUM', 'R-ITER', 'R-HOIST', 'R-INTOVEC', 'R-CUTTAIL', 'R-CLOSPAT', 'R-MAPCOLLECT') for r, _ in spec.rewrites)))
    if not canary:
        for e in edits:
            if isinstance(e[3], str) and e[3] not in ('R-VIS', 'R-ATTR', 'R-CANARY'):
                gen.rewrites.append((e[3], sf.rel, line_of(src, e[0]) + sf.line_base))
            if isinstance(e[3], str) and e[3] in ('R-VIS', 'R-ATTR', 'R-LOG'):
                gen.dropped[e[3]] = gen.dropped.get(e[3], 0) + 1
        for anchor, text, org in spec.inserts:
            gen.clauses.append((qual + item.name, anchor, text.strip()))


def project_edits(sf, item, keep):
    """R-PROJECT: keep only the named fields of a struct (the others are dropped and reported)."""
    toks = sf.toks
    if item.kind != 'struct' or item.body_open is None:
        raise LostAnchor(f'{sf.rel}: `only` needs a struct with named fields ({item.name})')
    fields = []   # (name, first_tok, last_tok_incl_comma)
    i = item.body_open + 1
    while i < item.body_close:
        start = i
        # attributes / vis
        while is_p(toks[i], '#'):
            i = match_close(toks, i + 1) + 1
        if is_id(toks[i], 'pub'):
            i += 1
            if is_p(toks[i], '('):
                i = match_close(toks, i) + 1
        name = toks[i].text
        adepth = 0
        j = i
        while j < item.body_close:
            t = toks[j]
            if t.kind == 'punct' and t.text in ('(', '[', '{'):
                j = match_close(toks, j)
            elif is_p(t, '<'):
                adepth += 1
            elif is_p(t, '>') and not is_p(toks[j - 1], '-'):
                adepth -= 1
            elif is_p(t, ',') and adepth == 0:
                break
            j += 1
        last = j if j < item.body_close else item.body_close - 1
        fields.append((name, start, last))
        i = last + 1
    names = [f[0] for f in fields]
    for k in keep:
        if k not in names:
            raise LostAnchor(f'{sf.rel}: struct {item.name} has no field `{k}`')
    edits = []
    dropped = []
    for name, a, b in fields:
        if name not in keep:
            edits.append((toks[a - 1].end, toks[b].end, '', 'R-PROJECT'))
            dropped.append(name)
    return edits, dropped


def constcall_edits(sf, item):
    """R-CONSTCALL: `const N: T = P::new_const(LIT);` -> `exec const N: T ensures N == P::spec_new_const(LIT) { P::new_const(LIT) }`
    (Verus consts are dual-mode and may not call exec functions; the value is carried by the ensures)."""
    toks = sf.toks
    i = item.kw
    name = toks[i + 1].text
    j = i
    while not is_p(toks[j], '='):
        j += 1
    expr = sf.src[toks[j + 1].start:toks[item.last].start].strip()
    m = re.match(r'^([A-Za-z_][A-Za-z0-9_:]*)::new_const\((.*)\)$', expr)
    if not m:
        raise LostAnchor(f'{sf.rel}: const {name} is not of the form P::new_const(LIT)')
    return [
        (toks[i].start, toks[i].start, 'exec ', 'R-CONSTCALL'),
        (toks[j].start, toks[item.last].end, f' ensures {name} == {m.group(1)}::spec_new_const({m.group(2)}) {{ {expr} }}', 'R-CONSTCALL'),
    ]


def dropauto_edits(sf, item):
    """R-AUTOTRAIT: `dyn T + Send + Sync` -> `dyn T` (Verus rejects dyn with more than one trait; Send/Sync are
    marker traits without methods)."""
    toks = sf.toks
    edits = []
    for i in range(item.first, item.last):
        if is_p(toks[i], '+') and toks[i + 1].kind == 'id' and toks[i + 1].text in ('Send', 'Sync'):
            edits.append((toks[i].start, toks[i + 1].end, '', 'R-AUTOTRAIT'))
    return edits


def emit_item(gen, sf, item, only=None, constcall=False, dropauto=False):
    edits = strip_edits(sf, item.first, item.last) + pub_edits(sf, item)
    if dropauto:
        de = dropauto_edits(sf, item)
        edits += de
        if de:
            gen.rewrites.append(('R-AUTOTRAIT', sf.rel, line_of(sf.src, sf.toks[item.kw].start)))
    if constcall:
        edits += constcall_edits(sf, item)
        gen.rewrites.append(('R-CONSTCALL', sf.rel, line_of(sf.src, sf.toks[item.kw].start)))
    if only is not None:
        pe, dropped = project_edits(sf, item, only)
        # remove strip/pub edits that fall inside dropped ranges
        edits = [e for e in edits if not any(p[0] <= e[0] and e[1] <= p[1] for p in pe)] + pe
        gen.projected.append((sf.rel, item.name, dropped))
    gen.out.nl()
    apply_edits(sf.src, sf.toks[item.first].start, sf.toks[item.last].end, edits, gen.out, sf.rel)
    gen.out.nl()
    for e in edits:
        gen.dropped[e[3]] = gen.dropped.get(e[3], 0) + 1


_ANCHOR_KIND = {'loop': 'loops', 'before-loop': 'loops', 'after-loop': 'loops', 'return': 'returns', 'break': 'breaks',
                'closure': 'closures', 'mapcollect': 'closures', 'after-semi': 'semis'}
_REWRITE_KIND = {'R-FOR': 'loops', 'R-ENUM': 'loops', 'R-ITER': 'loops', 'R-HOIST': 'loops', 'R-HOISTEND': 'loops', 'R-INTOVEC': 'loops',
                 'R-ITERMUT': 'loops', 'R-FORSTEP': 'loops', 'R-ITERPAIRMUT': 'loops', 'R-FORVEC': 'loops', 'R-CUTTAIL': 'returns',
                 'R-CLOSPAT': 'closures', 'R-CLOSANN': 'closures', 'R-UPDATE': 'closures', 'R-MAPCOLLECT': 'closures'}


def _used_kinds(spec):
    """which counts (loops / returns / breaks / closures / semis) the ordinal anchors and rewrites of a function rely on"""
    ks = set()
    for a, _, _ in spec.inserts:
        k = _ANCHOR_KIND.get(a.split()[0])
        if k:
            ks.add(k)
    for r, _ in spec.rewrites:
        k = _REWRITE_KIND.get(r)
        if k:
            ks.add(k)
    # R-CLOSPAT numbers closures among all closure literals; anchors inside a loop body also depend on the loop count
    return ks


def _top_semis(toks, item):
    """number of `;` at the top level of a function body (shape component for `after-semi K` anchors)"""
    if item.body_open is None:
        return 0
    j = item.body_open + 1
    n = 0
    while j < item.body_close:
        t = toks[j]
        if t.kind == 'punct' and t.text in ('(', '[', '{'):
            j = match_close(toks, j)
        elif is_p(t, ';'):
            n += 1
        j += 1
    return n


def check_shapes(gen, unit_path, record=False):
    """Structural anchors are ordinals (loop K, return J, ...). If the number of loops / returns / breaks / closure
    literals of a function that uses such anchors differs from the recorded shape, the anchors may land on the wrong
    construct: that is a LOST ANCHOR (exit 2), never an alarm."""
    import json
    path = os.path.join(os.path.dirname(unit_path), 'shape.json')
    cur = {}
    used = {}
    for f in gen.functions:
        if not f['canary'] and f.get('ordinal') and not f.get('fallback'):
            cur[f['qual'] + f['name']] = f['shape']
            used[f['qual'] + f['name']] = f.get('used_kinds')
    if record:
        json.dump(cur, open(path, 'w'), indent=1, sort_keys=True)
        return
    try:
        want = json.load(open(path))
    except OSError:
        return
    for k, v in want.items():
        if k not in cur:
            continue
        # only the kinds of construct that this function's ordinal anchors / rewrites actually count matter: a new
        # `break` cannot move a `loop K` anchor
        kinds = used.get(k) or set(v) | set(cur[k])
        if any(v.get(x) != cur[k].get(x) for x in kinds):
            raise LostAnchor(f'shape of {k} changed: recorded {v}, now {cur[k]} (ordinal anchors on {sorted(kinds)} would be ambiguous)')


def generate(unit_path, canaries=True, record_shapes=False, extra=None):
    """Returns Generated. unit_path: path of unit.vs. extra: [(repo file, kind, name)] items to extract in addition
    (used by the runner to pull in constants of the same file that an extracted function turns out to reference)."""
    gen = _generate(unit_path, canaries, extra or [])
    check_shapes(gen, unit_path, record=record_shapes)
    return gen


def _generate(unit_path, canaries=True, extra=()):
    gen = Generated()
    extra = list(extra)
    lines = []

    def load(path, depth=0):
        try:
            txt = open(path).read().split('\n')
        except OSError as e:
            raise LostAnchor(f'cannot read {path}: {e}')
        for n, l in enumerate(txt, 1):
            m = re.match(r'\s*//@\s*include\s+(\S+)', l)
            if m:
                load(os.path.join(VERIF, m.group(1)), depth + 1)
            else:
                lines.append((l, path, n))
    load(unit_path)

    i = 0
    pending_canaries = []
    cur_impl = None      # (sf, impls, header)
    n = len(lines)

    def parse_fn_block(i, name, path, lno):
        spec = FnSpec(name, path, lno)
        cur_anchor = None
        buf = []
        buf_line = None

        def flush():
            nonlocal buf, cur_anchor, buf_line
            if cur_anchor is not None:
                while buf and not buf[-1].strip():
                    buf.pop()
                if buf:
                    spec.inserts.append((cur_anchor, '\n'.join(buf), (path, buf_line)))
            buf = []
            cur_anchor = None
        while i < n:
            l, p, ln = lines[i]
            m = re.match(r'\s*//@\s*(.*)$', l)
            if m:
                d = m.group(1).strip()
                w = d.split()
                if w and w[0] in ('end-fn', 'fn', 'end-impl'):
                    flush()
                    if w[0] == 'end-fn':
                        i += 1
                    return spec, i
                if w[0] == 'ret':
                    spec.ret = w[1]
                elif w[0] == 'canary':
                    spec.canary = (w[1] != 'off')
                elif w[0] in ('rewrite', 'rewrite?'):
                    if w[0] == 'rewrite?':
                        spec.opt_rewrites.add(len(spec.rewrites))
                    spec.rewrites.append((w[1], w[2:]))
                elif w[0] in ('at', 'at?'):
                    flush()
                    cur_anchor = ' '.join(w[1:])
                    if w[0] == 'at?':
                        spec.opt_anchors.add(cur_anchor)
                    buf_line = ln + 1
                elif w[0] == '#':
                    pass
                else:
                    raise LostAnchor(f'{p}:{ln}: unknown directive in fn block: {d}')
            else:
                if cur_anchor is not None:
                    buf.append(l)
                elif l.strip():
                    raise LostAnchor(f'{p}:{ln}: text outside an `at` block in fn block')
            i += 1
        flush()
        return spec, i

    while i < n:
        l, p, ln = lines[i]
        m = re.match(r'\s*//@\s*(.*)$', l)
        if not m:
            gen.out.add(l + '\n', lambda k, p=p, ln=ln: ('unit', p, ln))
            i += 1
            continue
        d = m.group(1).strip()
        w = d.split()
        if not w or w[0] == '#':
            i += 1
            continue
        if extra and w[0] in ('item', 'impl', 'fn', 'lift') and cur_impl is None:
            for (rel_x, kind_x, name_x) in extra:
                sfx = SrcFile.get(rel_x)
                emit_item(gen, sfx, sfx.find_item(kind_x, name_x))
                gen.rewrites.append((f'R-AUTOCONST {kind_x} {name_x} (referenced by an extracted function)', rel_x, 0))
            extra = []
        if w[0] in ('idtype', 'idtype64'):
            tmpl = open(os.path.join(VERIF, 'prelude', 'idtype.tmpl')).read().replace('__REP__', 'u64' if w[0] == 'idtype64' else 'u32')
            tp = os.path.join(VERIF, 'prelude', 'idtype.tmpl')
            for nm in w[1:]:
                gen.out.nl()
                gen.out.add(tmpl.replace('__NAME__', nm), lambda k, tp=tp: ('unit', tp, k + 1))
            i += 1
        elif w[0] == 'item':
            sf = SrcFile.get(w[1])
            only = None
            if len(w) > 5 and w[4] == 'only':
                only = [x for x in ' '.join(w[5:]).replace(',', ' ').split()]
            derive = None
            if 'derive' in w[4:]:
                k = w.index('derive')
                derive = w[k + 1]
                w = w[:k] + w[k + 2:]
                gen.out.nl()
                gen.out.add(f'#[derive({derive})]\n', lambda k2, p=p, ln=ln: ('unit', p, ln))
            dropauto = 'dropauto' in w[4:]
            if dropauto:
                w = [x for x in w if x != 'dropauto']
                only = None
                if len(w) > 5 and w[4] == 'only':
                    only = [x for x in ' '.join(w[5:]).replace(',', ' ').split()]
            emit_item(gen, sf, sf.find_item(w[2], w[3]), only=only, constcall=(len(w) > 4 and w[4] == 'constcall'), dropauto=dropauto)
            i += 1
        elif w[0] == 'impl':
            sf = SrcFile.get(w[1])
            header = d.split(None, 2)[2]
            emit_as = None
            if '=>' in header:
                header, emit_as = [x.strip() for x in header.split('=>')]
            impls = sf.find_impls(header)
            cur_impl = (sf, impls, emit_as or header)
            im = impls[0]
            hdr = sf.src[sf.toks[im.kw].start:sf.toks[im.body_open].end]
            if emit_as:
                hdr = emit_as + ' {'
                gen.rewrites.append((f'R-INHERENT `{header}` emitted as `{emit_as}`', sf.rel, line_of(sf.src, sf.toks[im.kw].start)))
            base = line_of(sf.src, sf.toks[im.kw].start)
            gen.out.nl()
            gen.out.add(hdr + '\n', lambda k, base=base, rel=sf.rel: ('repo', rel, base + k))
            i += 1
        elif w[0] == 'lift':
            # //@ lift <file> <fn name | Impl::fn> closure K as NAME ; then `//@ sigtext <text>` gives the header
            sf = SrcFile.get(w[1])
            target = w[2]
            lift_kind = w[3]
            k = int(w[4])
            name = w[6]
            header_txt = None
            j = i + 1
            m3 = re.match(r'\s*//@\s*header\s+(.*)$', lines[j][0])
            if not m3:
                raise LostAnchor(f'{p}:{ln}: lift needs a following `//@ header fn NAME(...) -> T` line')
            header_txt = m3.group(1).strip()
            spec, i = parse_fn_block(j + 1, name, p, ln)
            # find the enclosing fn (search all impls and free fns)
            cands = []
            for it in sf.all_mods():
                if it.kind == 'fn' and it.name == target:
                    cands.append(it)
                if it.kind == 'impl' and it.body_open is not None:
                    for it2 in sf.sub_items(it):
                        if it2.kind == 'fn' and it2.name == target:
                            cands.append(it2)
            if len(cands) != 1:
                raise LostAnchor(f'{sf.rel}: expected exactly one fn {target} for lift, found {len(cands)}')
            fi0 = FnInfo(sf, cands[0])
            if lift_kind == 'afterloop':
                # the statements that follow loop K (function-wide ordinal) up to the end of the block containing it
                if k >= len(fi0.loops):
                    raise LostAnchor(f'{sf.rel}: fn {target} has no loop {k}')
                q0 = fi0.loops[k]['close'] + 1
                q = q0
                while True:
                    t = sf.toks[q]
                    if t.kind == 'punct' and t.text in ('(', '[', '{'):
                        q = match_close(sf.toks, q)
                    elif t.kind == 'punct' and t.text in (')', ']', '}'):
                        break
                    q += 1
                body = '{ ' + sf.src[sf.toks[q0].start:sf.toks[q].start] + '}'
                lb = line_of(sf.src, sf.toks[q0].start) - 1
                text = header_txt + ' ' + body
                sf2 = SrcFile(sf.rel, text=text, line_base=lb)
                try:
                    sf2.toks = lex(sf2.src)
                    sf2.items = parse_items(sf2.toks, 0, len(sf2.toks))
                except (LexError, IndexError, AssertionError) as e:
                    raise LostAnchor(f'lift: cannot parse lifted block: {e}')
                item = sf2.items[0]
                gen.rewrites.append((f'R-LIFT afterloop {k} of {target} as {name}', sf.rel, lb + 1))
                emit_fn(gen, sf2, item, spec, canary=False, qual='closure@' + target + '::')
                if canaries and spec.canary:
                    emit_fn(gen, sf2, item, spec, canary=True, qual='closure@' + target + '::')
                continue
            if lift_kind == 'tail':
                # the top-level statements of the function from the one that ends with the K-th top-level `;` to the end
                it0 = cands[0]
                q = it0.body_open + 1
                n_semi = -1
                stmt_start = q
                b0 = None
                while q < it0.body_close:
                    t = sf.toks[q]
                    if t.kind == 'punct' and t.text in ('(', '['):
                        q = match_close(sf.toks, q)
                    elif is_p(t, '{'):
                        q = match_close(sf.toks, q)
                        if not (is_p(sf.toks[q + 1], ';') or is_p(sf.toks[q + 1], '.') or is_id(sf.toks[q + 1], 'else') or is_p(sf.toks[q + 1], '?')):
                            stmt_start = q + 1
                    elif is_p(t, ';'):
                        n_semi += 1
                        if n_semi == k:
                            b0 = stmt_start
                            break
                        stmt_start = q + 1
                    q += 1
                if b0 is None:
                    raise LostAnchor(f'{sf.rel}: fn {target} has no top-level statement ending with `;` #{k}')
                body = '{ ' + sf.src[sf.toks[b0].start:sf.toks[it0.body_close].start] + '}'
                params_txt = 'tail'
                lb = line_of(sf.src, sf.toks[b0].start) - 1
                text = header_txt + ' ' + body
                sf2 = SrcFile(sf.rel, text=text, line_base=lb)
                try:
                    sf2.toks = lex(sf2.src)
                    sf2.items = parse_items(sf2.toks, 0, len(sf2.toks))
                except (LexError, IndexError, AssertionError) as e:
                    raise LostAnchor(f'lift: cannot parse lifted tail: {e}')
                item = sf2.items[0]
                gen.rewrites.append((f'R-LIFT tail {k} of {target} as {name}', sf.rel, lb + 1))
                emit_fn(gen, sf2, item, spec, canary=False, qual='closure@' + target + '::')
                if canaries and spec.canary:
                    emit_fn(gen, sf2, item, spec, canary=True, qual='closure@' + target + '::')
                continue
            if lift_kind == 'else':
                # the final `else { .. }` block of the K-th `if` at the top level of the function body, as a function
                it0 = cands[0]
                q = it0.body_open + 1
                n_if = -1
                b0 = None
                while q < it0.body_close:
                    t = sf.toks[q]
                    if t.kind == 'punct' and t.text in ('(', '[', '{'):
                        q = match_close(sf.toks, q)
                    elif is_id(t, 'if') and not is_id(sf.toks[q - 1], 'else'):
                        n_if += 1
                        # walk the if / else-if chain
                        r_ = q
                        last_else = None
                        while True:
                            while not is_p(sf.toks[r_], '{'):
                                if sf.toks[r_].kind == 'punct' and sf.toks[r_].text in ('(', '['):
                                    r_ = match_close(sf.toks, r_)
                                r_ += 1
                            r_ = match_close(sf.toks, r_)
                            if is_id(sf.toks[r_ + 1], 'else'):
                                if is_id(sf.toks[r_ + 2], 'if'):
                                    r_ = r_ + 2
                                    continue
                                last_else = r_ + 2
                                r_ = match_close(sf.toks, last_else)
                            break
                        if n_if == k:
                            b0 = last_else
                            break
                        q = r_
                    q += 1
                if b0 is None or not is_p(sf.toks[b0], '{'):
                    raise LostAnchor(f'{sf.rel}: fn {target} has no top-level if #{k} with a final else block')
                params_txt = 'else-block'
            else:
                if k >= len(fi0.closures):
                    raise LostAnchor(f'{sf.rel}: fn {target} has no closure {k}')
                cl = fi0.closures[k]
                b0 = cl['bar2'] + 1
                if not is_p(sf.toks[b0], '{'):
                    raise LostAnchor(f'{sf.rel}: closure {k} of {target} has no block body')
                params_txt = re.sub(r'\s+', ' ', sf.src[sf.toks[cl['bar1']].start:sf.toks[cl['bar2']].end])
            b1 = match_close(sf.toks, b0)
            body = sf.src[sf.toks[b0].start:sf.toks[b1].end]
            text = header_txt + ' ' + body
            lb = line_of(sf.src, sf.toks[b0].start) - 1
            sf2 = SrcFile(sf.rel, text=text, line_base=lb)
            try:
                sf2.toks = lex(sf2.src)
                sf2.items = parse_items(sf2.toks, 0, len(sf2.toks))
            except (LexError, IndexError, AssertionError) as e:
                raise LostAnchor(f'lift: cannot parse lifted closure: {e}')
            item = sf2.items[0]
            gen.rewrites.append((f'R-LIFT {lift_kind} {k} of {target} (params `{params_txt}`) as {name}', sf.rel, lb + 1))
            emit_fn(gen, sf2, item, spec, canary=False, qual='closure@' + target + '::')
            if canaries and spec.canary:
                emit_fn(gen, sf2, item, spec, canary=True, qual='closure@' + target + '::')
        elif w[0] == 'end-impl':
            gen.out.nl()
            gen.out.add('}\n', lambda k, p=p, ln=ln: ('unit', p, ln))
            if pending_canaries:
                sf, impls, header = cur_impl
                m2 = re.match(r'^impl\s*(<.*?>)?\s*(?:.*?)\s+for\s+(.*)$', header)
                inh = f'impl{m2.group(1) or ""} {m2.group(2)} {{'
                gen.out.add(inh + '\n', lambda k, p=p, ln=ln: ('unit', p, ln))
                for (sf2, item2, spec2, qual2) in pending_canaries:
                    emit_fn(gen, sf2, item2, spec2, canary=True, qual=qual2)
                gen.out.nl()
                gen.out.add('}\n', lambda k, p=p, ln=ln: ('unit', p, ln))
                pending_canaries = []
            cur_impl = None
            i += 1
        elif w[0] == 'fn':
            if cur_impl is not None:
                sf, impls, header = cur_impl
                name = w[1]
                spec, i = parse_fn_block(i + 1, name, p, ln)
                item = sf.find_method(impls, name)
                qual = re.sub(r'^impl\s*(<[^>]*>)?\s*', '', header)
                qual = re.sub(r'^.*\sfor\s+', '', qual) + '::'
            else:
                sf = SrcFile.get(w[1])
                name = w[2]
                spec, i = parse_fn_block(i + 1, name, p, ln)
                item = sf.find_item('fn', name)
                qual = ''
            is_trait = cur_impl is not None and (bool(re.search(r'\sfor\s', cur_impl[2])) or cur_impl[2].lstrip().startswith('trait'))
            if cur_impl is not None and cur_impl[2].lstrip().startswith('trait'):
                spec.canary = False   # no twin can be added inside a trait declaration
            emit_fn(gen, sf, item, spec, canary=False, qual=qual, in_trait=is_trait)
            if canaries and spec.canary:
                if cur_impl is not None and re.search(r'\sfor\s', cur_impl[2]):
                    pending_canaries.append((sf, item, spec, qual))
                else:
                    emit_fn(gen, sf, item, spec, canary=True, qual=qual)
        else:
            raise LostAnchor(f'{p}:{ln}: unknown directive: {d}')
    return gen
