#!/bin/sh
# dev helper: mut.sh <unit> <relative file> <sed expr>   -- apply a mutation on a scratch copy and run the unit
set -e
S=/var/tmp/mut/r
mkdir -p $S
rsync -a --delete --exclude target --exclude .git /repo/ $S/
sed -i "$3" $S/$2
if diff -q /repo/$2 $S/$2 >/dev/null; then echo "MUTATION DID NOT APPLY"; exit 3; fi
diff /repo/$2 $S/$2 | head -6
VERIF_REPO=$S /verif/check --unit $1 || true
