#!/bin/sh
# dev helper: generate unit $1 into /var/tmp/spike/$1.rs and run verus
cd /verif/vc && python3 -c "
import gen,sys
g=gen.generate('/verif/units/$1/unit.vs')
open('/var/tmp/spike/$1.rs','w').write(g.out.text())
" && cd /var/tmp/spike && verus $1.rs --edition 2024 --multiple-errors 8 --triggers-mode silent 2>&1 | grep -v "^$" | head -${2:-120}
