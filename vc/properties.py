"""Which units decide which property (DESIGN.md section 5)."""

PROPS = {
    'C17': dict(
        units=['uf'],
        kani_quick=[],
        kani_thorough=[],
        design_ref='DESIGN.md section 4 (U-UF, U-ID, U-CUF) and section 5 C17',
        level_text='Unbounded proof (Verus) that the real sequential UnionFind::{reserve,find,find_naive,union} implement '
                   'the abstract partition: find returns root(), path compression never changes any root, union moves exactly '
                   'the class of the larger root under the smaller one (representative = minimum id), for all histories and sizes. '
                   'The concurrent union-find is not covered by proof (sequential-semantics bounded stand-in only); linearizability '
                   'under interleavings is outside the family and is stated as unchecked.',
        level_note='Trusted: NumericId axioms for a generic Value (ix injective, ==/cmp follow the index; discharged for the concrete '
                   'newtypes by the loop-free Kani unit U-ID when built), core::cmp::min/max specification, Vec specs of vstd, '
                   'rewrite R-HOIST/R-RET, id.ix() < usize::MAX. Concurrency unchecked.',
        assumptions=['partial correctness: from_usize panics on id overflow; Vec capacity overflow aborts',
                     'concurrent::UnionFind interleavings are NOT checked (no thread support in Kani/Verus for this code)'],
    ),
}
