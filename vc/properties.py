"""Which units decide which property (DESIGN.md section 5)."""

PROPS = {
    'C17': dict(
        units=['uf'],
        kani_quick=['id_axioms_u32', 'id_axioms_usize'],
        kani_thorough=['uf_reset', 'uf_find_naive_small', 'cuf_find_impl_sequential'],
        design_ref='DESIGN.md section 4 (U-UF, U-ID, U-CUF) and section 5 C17',
        level_text='Unbounded proof (Verus) that the real sequential UnionFind::{reserve,find,find_naive,union} implement '
                   'the abstract partition: find returns root(), path compression never changes any root, union moves exactly '
                   'the class of the larger root under the smaller one (representative = minimum id), for all histories and sizes. '
                   'The concurrent union-find is not covered by proof (sequential-semantics bounded stand-in only); linearizability '
                   'under interleavings is outside the family and is stated as unchecked.',
        level_note='Trusted: NumericId axioms for a generic Value (ix injective, ==/cmp follow the index; discharged for the concrete '
                   'newtypes by the loop-free Kani unit U-ID: harnesses id_axioms_u32 / id_axioms_usize run in the quick tier), core::cmp::min/max specification, Vec specs of vstd, '
                   'rewrite R-HOIST/R-RET, id.ix() < usize::MAX. Concurrency unchecked.',
        assumptions=['partial correctness: from_usize panics on id overflow; Vec capacity overflow aborts',
                     'concurrent::UnionFind interleavings are NOT checked (no thread support in Kani/Verus for this code)'],
    ),
    'C10': dict(
        units=['sched'],
        kani_quick=[],
        kani_thorough=[],
        design_ref='DESIGN.md section 4 (U-SCHED) and section 5 C10',
        level_text='Unbounded proof (Verus) that the real EGraph::run_schedule and EGraph::run_rules (src/lib.rs) and '
                   'RunReport::{default,union} (egglog-reports) implement the schedule semantics written from the property '
                   'statement (run_ok): Run = the :until gate then exactly one iteration; Repeat = at most n executions, stopping '
                   'after the first that reports can_stop and never earlier; Saturate = executions until one reports no update '
                   '(partial correctness); Sequence = every sub-schedule left to right; reports combine with updated=OR, '
                   'can_stop=AND, iterations concatenated. For every schedule tree and every behaviour of the abstract step.',
        level_note='Trusted: step_rules and check_facts as functions of an abstract state (A-step: one backend iteration + '
                   'RunReport::singleton flags; check_facts leaves the state unchanged), the timing-map helpers union_times/union_counts, '
                   'Vec::extend specification, IndexMap::contains_key; the parser mapping (run n) to Repeat(n, Run); one assume on the '
                   'log-only Saturate counter. Err outcomes are unconstrained (only ruleset preservation). Termination of saturate not claimed.',
        assumptions=['step_rules/check_facts are assumed contracts over an abstract state (src/lib.rs:1118,1571 not verified)',
                     'errors: on Err the final state is not constrained by the contract'],
    ),
    'C04': dict(
        units=['driver', 'insert', 'tblrebuild'],
        replay_units=['cont'],
        kani_quick=[],
        kani_thorough=['incremental_rebuild_monotone'],
        design_ref='DESIGN.md section 4 (U-REBUILD, U-DISP) and section 5 C04',
        level_text='Unbounded proof (Verus) of the driver obligation of C04 on the real egglog-bridge functions '
                   'EGraph::{run_rules_inner, flush_updates_inner, rebuild (native branch), next_ts, inc_ts} and run_rules_impl: '
                   'the database is canonical on EVERY exit path, Ok and Err alike, given that it was canonical on entry; the rebuild '
                   'loop only stops after a pass in which container rebuild, table rebuild and row refresh all report no change, '
                   'in that order and with that pass\'s dirty ids and timestamp; rebuild runs whenever the union-find grew. '
                   '(insert) the real SortedWritesTable::serial_insert keeps "at most one live row per key, every live row indexed, every index entry live" for every batch of pending rows and every merge function. '
                   '(tblrebuild) the table side of a value-level rebuild (all four copies of the staging loop in table/rebuild.rs, lifted: non-incremental serial branch incl. its chunked scan, one chunk of its parallel branch, the staging block of the incremental serial branch, one dirty id of its parallel branch) stages, for EVERY row the rebuilder reports, the removal of the row stored under the old key and the insertion of the rebuilt row, and nothing else; merge() then deletes before it inserts (insert). '
                   'The rebuilder\'s report itself over a row range (rebuild_buf; rebuild_subset is proved in unit disp), the subset scans feeding the incremental rebuild, parallel_insert and the chunking / fan-out of the parallel branches are assumed.',
        level_note='Trusted (A-db): Database::{merge_all, run_rule_set} keep a canonical database canonical unless the union-find grew; '
                   'a rebuild pass in which rebuild_containers, apply_rebuild and refresh_rows_for_values all report no change leaves '
                   'the database canonical; inc_counter/read_counter; Query::build_cached_plan does not touch table contents; '
                   'DenseIdMap/DenseIdMapWithReuse behave as maps; the non-native rebuild branches (rule-based rebuild, rebuild_parallel) '
                   'are cut by R-CUTTAIL and shown unreachable from "the uf table supports native rebuild". Termination of the rebuild loop not claimed.',
        assumptions=['canonical() is an abstract predicate; its establishment by one quiescent rebuild pass and its preservation by merge/run when '
                     'the union-find did not grow are assumed contracts on core-relations (SortedWritesTable, Canonicalizer, containers)',
                     'EGraph struct projected onto the fields the verified functions use'],
    ),
    'C05': dict(
        units=['merge', 'insert', 'driver'],
        replay_units=['tablepaths', 'apiupdate'],
        kani_quick=[],
        kani_thorough=['combine_subsumed_algebra', 'schema_math_layout', 'write_table_row_vec', 'id_axioms_u32'],
        design_ref='DESIGN.md section 4 (U-MIN, U-MERGE) and section 5 C05',
        level_text='Unbounded proof (Verus) on the real egglog-bridge code that (a) ResolvedMergeFn::run evaluates every resolved merge '
                   'expression compositionally to mval(m, cur, new) (Const/Old/New/AssertEq/UnionId/Primitive/Function, all nesting depths), '
                   'invokes the panic function exactly when a :no-merge conflict or a failed primitive/lookup occurs, and stages exactly the '
                   'union rows of the UnionId nodes; (b) the closure built by MergeFn::to_callback reports `changed` exactly when the merged value '
                   'or merged subsume flag differs from the stored one and then writes the whole row: incoming keys, mval, INCOMING timestamp, '
                   'max of the flags; (c) min/max are ACI so the fold over writes is order independent; (d) (unit insert) the real SortedWritesTable::serial_insert applies the merge '
                   'callback on EVERY collision of the serial path: the final table is the initial one with each pending row applied in turn (chain/applied): key absent -> the row is stored; '
                   'key present -> the stored row is replaced by the MERGED row iff the callback reports a change, and nothing else changes; (e) StagedOutputs::insert (the in-batch staging path used by the parallel insert) does the same for one row, '
                   'through the hashbrown entry API, and keeps n_stale equal to the number of superseded rows. parallel_insert itself (which decides what to do with the staged batches; see F2) is NOT covered: assumed; (f) (unit driver, clauses tagged [only: C05]) a :no-merge conflict raises an error from the command that caused it: bridge run_rules_inner returns Ok only when no panic message is left unread, also for conflicts created by the rebuild; flush_updates_inner (the Rust-API write path) does NOT read the side channel: known finding F4. '
                   'Rebuild re-insertion stages remove + insert and so goes through these same paths at the next merge (the staging in table/rebuild.rs is not under contract).',
        level_note='Trusted: ExecutionState::{stage_insert, call_external_func, read_counter} as ghost logs; external functions and '
                   'TableAction::lookup_or_insert as functions of their arguments; SchemaMath::write_table_row (generic impl-Trait code; assumed contract); '
                   'NumericId axioms; core::cmp::min/max; rewrites R-LIFT, R-MAPCOLLECT, R-UNWRAPORELSE, R-THEN, R-BOOLOP, R-ASSERT (panic = divergence). '
                   'Known unverified defect F2 (parallel_insert drops the merged row) lies in the assumed part; see DESIGN.md section 8.',
        assumptions=['parallel_insert (rayon, unsafe row writers) is assumed to apply what StagedOutputs::insert staged; F2 shows it does not when a staged row collides with a stored one',
                     'serial_insert is proved over assumed contracts for the row store (Rows::get_row/add_row/set_stale), the sharded hash table (get_entry_mut, insert_unique; shards viewed as one map) and the dyn Fn merge callback as a pure function (mch/mo)',
                     'translate_expr_to_mergefn / MergeFn::resolve not covered'],
    ),
    'C13': dict(
        units=['merge', 'insert'],
        replay_units=['subsumehead'],
        kani_quick=[],
        kani_thorough=['combine_subsumed_algebra', 'schema_math_layout', 'write_table_row_vec'],
        design_ref='DESIGN.md section 4 (U-MERGE, U-MIN, U-ACT) and section 5 C13',
        level_text='Unbounded proof (Verus) on the real code that the subsume flag is combined by max on every collision in either order '
                   '(combine_subsumed with the real SUBSUMED/NOT_SUBSUMED constants: a subsumed row stays subsumed, two live rows stay live), '
                   'that a flag flip forces the row to be rewritten (changed), that the rewritten row carries the max flag in the subsume column, and '
                   'that the subsume column is distinct from key/value/timestamp columns (SchemaMath layout); (unit insert) the table-side evaluation of a constraint list (SortedWritesTable::eval/get_if/eval_constraints), through which the `subsume column == NOT_SUBSUMED` filter of a query is applied, hands out a row iff it is live and satisfies every constraint, and serial_insert/StagedOutputs::insert store exactly the merged row (so the max flag computed by the callback is what the table holds). That queries actually pass that constraint, extraction filters, the '
                   ':subsume desugaring and rebuild propagation are NOT covered.',
        level_note='Trusted: as for C05 (merge unit). Not covered: query_table NOT_SUBSUMED constraint, rebuild_row propagation, extraction skipping subsumed rows, '
                   'TableAction::subsume (impl Iterator argument, SmallVec collect: outside the Verus subset), deletion.',
        assumptions=['only the flag algebra, merge path and row layout are proved; matching/extraction filters are assumed'],
    ),
    'C03': dict(
        units=['semi', 'driver', 'merge', 'cont', 'tblrebuild', 'insert'],
        kani_quick=[],
        kani_thorough=[],
        design_ref='DESIGN.md section 4 (U-SEMI, U-REBUILD, U-MERGE) and section 5 C03',
        level_text='Unbounded proof (Verus) on the real code of the mechanisms semi-naive evaluation rests on at the bridge: '
                   '(a) Query::add_rules_from_cached emits exactly the delta variants semi_variants(): one unconstrained rule when naive; the sole-focus rule; '
                   'only the focus-0 variant on a first run (mid_ts = 0); otherwise N variants, variant f = [ts_f >= mid] + [ts_i < mid for i < f], each constraint on '
                   'that atom\'s own timestamp column and mapped through atom_mapping; lemma: these variants accept every match with at least one new atom exactly '
                   'once and no all-old match; (b) run_rules_impl stamps every rule it ran with the timestamp of the run; (c) run_rules_inner, flush_updates_inner '
                   'and rebuild strictly advance the timestamp on every successful path, rebuild or not; (d) a row rewritten by the merge callback carries the '
                   'incoming timestamp; (e) the dirty-id closure handed to the row refresh is closed under container nesting (unit cont); (f) (unit tblrebuild) every row re-inserted by the non-incremental table rebuild carries next_ts in its sort column (the insert_row! macro, expanded mechanically), so it counts as new; (g) (unit insert) the offsets vector that the timestamp-range search reads describes the sort column of every live row after serial_insert. Equality of whole databases under --naive (a two-run relation) is not stated.',
        level_note='Trusted: RuleSetBuilder::add_rule_from_cached_plan restricts the cached rule by the given constraints; every staging loop of table/rebuild.rs is proved to stamp next_ts (unit tblrebuild); which rows reach those loops (the rebuilder scans, the rebuild index) '
                   'and that the staged rows are then merged are assumed; Database contracts as for C04; merge-unit assumptions as for C05.',
        assumptions=['the join engine honouring the timestamp constraints and the rebuilder scans feeding the table rebuild are assumed'],
    ),
    'C16': dict(
        units=['disp', 'swt', 'index', 'insert', 'idxcache'],
        replay_units=['tableapi'],
        kani_quick=[],
        kani_thorough=['id_axioms_u32', 'uf_reset', 'offsets_intersect_dense_dense', 'offsets_scan_for_offset', 'offsets_binary_search_from'],
        design_ref='DESIGN.md section 4 (U-DISP, U-SWT, U-OFF) and section 5 C16',
        level_text='Unbounded proof (Verus) that every operation of the real DisplacedTable (core-relations/src/uf/mod.rs: insert_impl, expand, '
                   'timestamp_bounds, eval, eval_constraint, fast_subset, get_row, get_row_column, merge, len, all, version, updates_since, clear) keeps the '
                   'representation invariant (lookup_table is exactly the index of displaced, rows sorted by timestamp, the displaced ids are EXACTLY the non-canonical ids, '
                   'union-find well-formed) and agrees with the abstract view: a row is appended exactly when two classes are merged, fast_subset returns '
                   'EXACTLY the rows satisfying the constraint, timestamp range search returns exactly the rows with that timestamp. Built on the verified '
                   'UnionFind (same generated file, callers checked against its contracts). For SortedWritesTable (unit swt): binary_search_sort_val returns exactly the row range of the run '
                   'with the given sort value (or the partition point), and fast_subset on the sort column returns EXACTLY the rows whose sort value (timestamp) satisfies the constraint, '
                   'over the offsets abstraction (runs of strictly increasing sort values and row ids). (unit index) SubsetTracker::recent_updates hands out only the rows added since the version seen last within a major generation and everything otherwise, and records the version; Index::refresh is a no-op iff the versions agree, a full rebuild iff the major generation changed, the delta otherwise, and ends at the table\'s version; Index::refresh_serial (the batch loop) absorbs exactly the subset, the last partial batch included. (unit insert) over the keyed-map view KM (row store, hash index, number of keys) of the real SortedWritesTable: serial_insert and StagedOutputs::insert keep the invariant (one live row per key, hash entries = live rows, stored hash = hash of the key) and realise exactly the map update of each pending row; Rows::{add_row,set_stale,get_row,clear,next_row} keep stale_rows = number of stale rows; get_row / get_row_column return exactly the live row with the key or None when no live row has it; len() = rows - stale rows; merge() = removals, then every staged row through the merge function, then compaction, and row ids stay valid (rows only appended or marked stale) unless the major generation changed; maybe_rehash compacts exactly when stale > max(16, n/2) and then bumps the major generation; clear() empties rows and index and bumps the major generation of a non-empty table; version() = (generation, rows appended); eval / get_if / eval_constraints hand out a row iff it is live and satisfies EVERY constraint (Eq, EqConst, Lt/Gt/Le/GeConst, written from the documentation of the enum). (unit idxcache) Database::clear_table empties the table and leaves EVERY cached column/tuple index of it in the to-be-updated state (so the next index-backed read refreshes), touching no other table. The hash shards, RowBuffer, serial/parallel delete, parallel insert, rehash_impl (compaction itself), value-level rebuild and the index contents are assumed contracts, NOT covered.',
        level_note='Trusted: HashMap as a finite map (A-hash), [T]::binary_search_by_key specification for a total key closure (A-std), NumericId axioms, '
                   'OffsetRange::new debug_assert taken as precondition; UfBuffer / SegQueue staging not covered: the staged (pending) writes of a SortedWritesTable live in SegQueues behind Arc<PendingState>, '
                   'which cannot carry ghost state, so which writes are pending - and that clear() drops them also on its early-return path (seed C16-4) - is NOT proved; the thorough tier exercises it dynamically (replays/table_api). '
                   'Trait impl `impl Table for DisplacedTable` emitted as inherent impl (R-INHERENT).',
        assumptions=['SortedWritesTable, Rows, ShardedHashTable, rehash, remove_stale: assumed (unsafe, hashbrown)'],
    ),
    'C01': dict(
        units=['uf', 'merge', 'disp', 'driver', 'tblrebuild'],
        kani_quick=[],
        kani_thorough=['id_axioms_u32', 'id_axioms_usize', 'uf_reset'],
        design_ref='DESIGN.md section 4 (U-UF, U-MIN, U-DISP, U-REBUILD) and section 5 C01',
        level_text='Unbounded proof (Verus) of the kernel of congruence closure on the real code: (uf) the union-find realises exactly the partition generated '
                   'by the unions performed, with the minimum id as representative, and path compression never changes it; (merge) an FD conflict on a constructor '
                   '(UnionId merge, container merge) stages exactly the union of the two ids and keeps the id the union-find will choose - lemma '
                   'lemma_unionid_matches_union_find ties the two contracts; (disp) a staged union row reaches the union-find unchanged, DisplacedTable reports the canonical '
                   'id of every id (get_row_column col 1 = root; get_row returns [k, root(k), ts] for a displaced k and None exactly when k is canonical) and records exactly the displaced id; Canonicalizer::rebuild_val maps every id to its root and Canonicalizer::rebuild_subset (the incremental table rebuild) returns every scanned row with the rebuilt columns canonical, marking exactly the already-canonical rows as untouched; (driver) get_canon_in_uf/get_canon_repr return the representative; rebuild runs to the fixpoint signalled by container rebuild, '
                   'table rebuild and row refresh whenever the union-find grew, on every exit path. "No equality is invented" is proved at the union-find level; '
                   '"none that follows is missed" is proved modulo the per-pass rebuild contract; of that contract the table side of the non-incremental rebuild is proved (unit tblrebuild: every reported row is staged as remove-old-key + insert-rebuilt-row), Canonicalizer::rebuild_subset/rebuild_val are proved (disp), the rest (rebuild_buf scan, incremental path, Database::apply_rebuild plumbing) is assumed.',
        level_note='Trusted: the per-pass rebuild contract of core-relations (apply_rebuild rewrites every row to canonical ids and merges congruent rows), '
                   'plus the trusted bases of C17, C05, C16, C04.',
        assumptions=['one apply_rebuild pass canonicalises rows and merges congruent ones: assumed (unsafe row buffers, hashbrown)'],
    ),
    'C14': dict(
        units=['cont', 'merge', 'driver', 'tblrebuild'],
        kani_quick=[],
        kani_thorough=['rebuild_slice_default'],
        design_ref='DESIGN.md section 4 (U-CONT, U-MIN, U-REBUILD) and section 5 C14',
        level_text='Unbounded proof (Verus) on the real code of: (cont) rebuild_contents of ALL FIVE container sorts: Pair/Vec rebuild every element flagged for rebuild through the '
                   'rebuilder; SetContainer: the new set is the image of the old one under the rebuilder (elements that become equal collapse); MultiSetContainer: the image with multiplicities added up; '
                   'MapContainer: the new key set is the image of the old one (when keys are rebuilt) and every key carries the rebuilt value of an old key it comes from (which value survives a key collision is outside the claim, as in the property); '
                   'each returns false only if nothing was modified and true for every changed element/key (the trait obligation); ContainerValues::expand_dirty_id_closure returns a superset of the dirty ids '
                   'that is CLOSED under "is directly contained in" for all container types and nesting depths and raises `changed` whenever it adds one; '
                   '(merge) the container merge closure of register_container_ty keeps min(old,new) and stages exactly that union; (driver) every rebuild pass rebuilds containers '
                   'before tables, refreshes rows with exactly that pass\'s dirty ids and timestamp, and stops only when container rebuild, table rebuild and refresh all report no change. '
                   '(tblrebuild) the staging half of SortedWritesTable::refresh_rows_for_values (lifted): every live candidate row is removed and re-inserted unchanged except for its sort column, which becomes next_ts, so rules see the parent rows of a rebuilt container again; which rows are candidates (the rebuild index lookup) is assumed. The container environments themselves (DashMap hash-consing, apply_rebuild_*, val_index maintenance) and the container constructors (primitive closures of src/sort/*.rs) are NOT covered.',
        level_note='Trusted: IndexSet as a set, std BTreeSet / BTreeMap and egglog inner::MultiSet as finite set / map / multiset whose iteration yields every element and whose FromIterator builds the set / map / multiset of the yielded elements (R-INTOCOLLECT, R-MAPCOLLECT via=, R-ITERMUT values_mut), ValueRebuilder::rebuild_val as a pure function of (rebuilder, value) [the default rebuild_slice body IS verified, R-ITERMUT], DynamicContainerEnv::extend_containers_containing adds exactly the direct '
                   'parents recorded in val_index, DenseIdMap::iter; rewrites R-INTOVEC, R-ITER, R-AUTOTRAIT (dyn T + Send + Sync -> dyn T), R-INHERENT; the Database contracts of C04.',
        assumptions=['ContainerEnv (DashMap, trait objects) and refresh_rows_for_values (hashbrown index) assumed', 'termination of the closure loop not claimed'],
    ),
}
