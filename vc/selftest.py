#!/usr/bin/env python3
"""Self-test of the machinery: apply each catalogued edit to a scratch copy of /repo and run the unit.
Property-breaking edits must give `violation`, harmless edits must give `ok`. Never touches /repo."""
import os, subprocess, sys, shutil
HERE = os.path.dirname(os.path.dirname(os.path.abspath(__file__)))
S = '/var/tmp/verif-selftest'
def main():
    only = sys.argv[1] if len(sys.argv) > 1 else None
    bad = 0
    n = 0
    for line in open(os.path.join(HERE, 'selftest', 'catalogue.tsv')):
        if line.startswith('#') or not line.strip():
            continue
        unit, rel, sed, expect, what = line.rstrip('\n').split('\t')
        if only and unit != only:
            continue
        subprocess.run(['rsync', '-a', '--delete', '--exclude', 'target', '--exclude', '.git', '/repo/', S + '/'], check=True)
        subprocess.run(['sed', '-i', sed, os.path.join(S, rel)], check=True)
        if subprocess.run(['diff', '-q', os.path.join('/repo', rel), os.path.join(S, rel)], capture_output=True).returncode == 0:
            print(f'NOT-APPLIED {unit}: {what}')
            bad += 1
            continue
        env = dict(os.environ, VERIF_REPO=S)
        p = subprocess.run([os.path.join(HERE, 'check'), '--unit', unit], capture_output=True, text=True, env=env)
        got = p.stdout.split()[0] if p.stdout.split() else 'none'
        n += 1
        flag = 'ok  ' if got == expect else 'BAD '
        if got != expect:
            bad += 1
        print(f'{flag}{unit:7s} expected={expect:9s} got={got:9s} {what}')
    shutil.rmtree(S, ignore_errors=True)
    print(f'{n} edits, {bad} unexpected')
    return 1 if bad else 0
if __name__ == '__main__':
    sys.exit(main())
