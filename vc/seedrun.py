#!/usr/bin/env python3
"""Run the registered quick checks against a seeded change:  vc/seedrun.py <seed-id> [prop ...]

Applies /verif/seeded/<id>/patch.diff to /repo (git apply), runs `./check <prop> quick` for the property the
seed breaks (and any others given), records the outcome in seeded/<id>/meta.json ("checks"), and undoes the
patch (git checkout -- . ; untracked files the patch added are removed). /repo must be clean before.
"""
import json
import os
import subprocess
import sys
import time

HERE = os.path.dirname(os.path.dirname(os.path.abspath(__file__)))


def sh(cmd, **kw):
    return subprocess.run(cmd, shell=True, capture_output=True, text=True, **kw)


def main():
    sid = sys.argv[1]
    tier = 'thorough' if '--thorough' in sys.argv else 'quick'
    args = [a for a in sys.argv[2:] if not a.startswith('--')]
    d = os.path.join(HERE, 'seeded', sid)
    meta = json.load(open(os.path.join(d, 'meta.json')))
    props = args or meta.get('check_with') or [meta['property']]
    st = sh('git -C /repo status --porcelain').stdout.strip()
    if st:
        print('refusing: /repo is not clean:\n' + st)
        return 2
    p = sh(f'git -C /repo apply {d}/patch.diff')
    if p.returncode != 0:
        print('patch does not apply: ' + p.stderr)
        return 2
    out = {}
    # evidence files describe the unchanged tree: keep them as they are while the checks run against the patched one
    import shutil, tempfile
    evdir = os.path.join(HERE, 'evidence')
    keep = tempfile.mkdtemp(prefix='evkeep-', dir='/var/tmp')
    for f in os.listdir(evdir):
        shutil.copy2(os.path.join(evdir, f), os.path.join(keep, f))
    try:
        for prop in props:
            t0 = time.time()
            r = sh(f'cd {HERE} && ./check {prop} {tier}', timeout=4 * 3600)
            lines = [l for l in r.stdout.split('\n') if l.startswith(('VIOLATION', 'UNDECIDED', 'OK', 'KNOWN-FINDING'))]
            out[prop] = dict(exit=r.returncode, tier=tier, lines=lines, wall_s=round(time.time() - t0, 1))
            print(prop, r.returncode, *lines, sep='\n   ')
            if r.returncode == 1:
                for l in lines:
                    if l.startswith('VIOLATION'):
                        rp = l.split('replay=')[1].split()[0]
                        try:
                            body = json.load(open(rp))
                            out[prop].setdefault('obligations', []).append(dict(
                                function=body['function'], kind=body['kind'], clause=body['clause'][:200],
                                site=body['exit_or_call_site'][:120], failing_input=(body.get('failing_input') or '')[:300]))
                        except Exception:
                            pass
    finally:
        sh('git -C /repo checkout -- . && git -C /repo clean -fdq -e target')
        for f in os.listdir(keep):
            shutil.copy2(os.path.join(keep, f), os.path.join(evdir, f))
        shutil.rmtree(keep, ignore_errors=True)
    key = 'checks' if tier == 'quick' else 'checks_thorough'
    meta[key] = out
    meta['detected'] = any(v['exit'] == 1 for v in (meta.get('checks') or {}).values()) or any(v['exit'] == 1 for v in (meta.get('checks_thorough') or {}).values())
    json.dump(meta, open(os.path.join(d, 'meta.json'), 'w'), indent=1)
    return 0


if __name__ == '__main__':
    sys.exit(main())
