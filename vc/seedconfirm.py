#!/usr/bin/env python3
"""Confirm a seeded change myself, in a scratch worktree of /repo (never in /repo):
   vc/seedconfirm.py <seed-id> [--no-suite]
 1. demo passes on the clean tree;  2. demo fails with the patch;  3. the existing suite passes with the patch.
Writes seeded/<id>/confirm.log and meta.json["confirmed"]. The worktree (/tmp/wt-confirm) is reused between
seeds (its target dir is the build cache) and must be removed at the end of the session:
   git -C /repo worktree remove --force /tmp/wt-confirm
"""
import json
import os
import re
import subprocess
import sys
import time

HERE = os.path.dirname(os.path.dirname(os.path.abspath(__file__)))
WT = os.environ.get('VERIF_CONFIRM_WT', '/tmp/wt-confirm')
ENV = dict(os.environ, CARGO_NET_OFFLINE='true')


def sh(cmd, cwd=WT, timeout=None):
    t0 = time.time()
    p = subprocess.run(cmd, shell=True, cwd=cwd, capture_output=True, text=True, env=ENV, timeout=timeout)
    return p.returncode, p.stdout + p.stderr, round(time.time() - t0, 1)


def main():
    sid = sys.argv[1]
    do_suite = '--no-suite' not in sys.argv
    d = os.path.join(HERE, 'seeded', sid)
    meta = json.load(open(os.path.join(d, 'meta.json')))
    log = open(os.path.join(d, 'confirm.log'), 'w')

    def note(*a):
        print(*a)
        print(*a, file=log)
        log.flush()
    if not os.path.isdir(WT):
        rc, out, _ = sh(f'git -C /repo worktree add -q --detach {WT} HEAD', cwd='/')
        note('worktree add', rc, out[-300:])
    head = sh('git -C /repo rev-parse HEAD', cwd='/')[1].strip()
    sh(f'git checkout -q --detach {head} && git checkout -- . && git clean -fdq -e target')
    note(f'seed {sid} on /repo HEAD {head}')
    for f in meta['demo_files']:
        dest = os.path.join(WT, f['dest_in_repo'])
        os.makedirs(os.path.dirname(dest), exist_ok=True)
        sh(f'cp {d}/{f["src"]} {dest}', cwd='/')
    res = {}
    rc, out, t = sh(meta['demo_cmd'], timeout=7200)
    note(f'[1] demo on the clean tree: exit {rc} ({t}s)')
    note(out[-1500:])
    res['demo_clean_exit'] = rc
    rc, out, t = sh(f'git apply {d}/patch.diff')
    if rc != 0:
        note('patch does not apply', out)
        return 2
    rc, out, t = sh(meta['demo_cmd'], timeout=7200)
    note(f'[2] demo with the patch: exit {rc} ({t}s)')
    note(out[-2500:])
    res['demo_patched_exit'] = rc
    if do_suite:
        rc, out, t = sh('cargo nextest run --workspace --no-fail-fast --offline --test-threads 8', timeout=6 * 3600)
        m = re.search(r'Summary \[[^\]]*\]\s*(\d+) tests run: (\d+) passed(?: \((\d+) \w+\))?(?:, (\d+) failed)?', out)
        fails = re.findall(r'^\s+(?:FAIL|TIMEOUT|LEAK|ABORT|SIG[A-Z]+)\s+\[[^\]]*\]\s+\([^)]*\)\s+(.*)$', out, re.M)
        demo_names = [os.path.splitext(os.path.basename(f['dest_in_repo']))[0] for f in meta['demo_files']]
        other = sorted(set(x for x in fails if not any(n in x for n in demo_names)))
        note(f'[3] suite with the patch: exit {rc} ({t}s) summary={m.group(0) if m else None}')
        note('    failing tests other than the demo: ' + (', '.join(other) if other else 'none'))
        res['suite_summary'] = m.group(0) if m else None
        # cross-check: the number of failed tests in the summary must be the number of distinct failing demo tests
        n_failed = int(m.group(4) or 0) if m else -1
        n_demo = len(set(x for x in fails if any(n in x for n in demo_names)))
        if n_failed != n_demo:
            other = other + [f'(summary reports {n_failed} failed tests, {n_demo} of them are demo tests)']
        res['suite_other_failures'] = other
    ok = res['demo_clean_exit'] == 0 and res['demo_patched_exit'] != 0 and (not do_suite or (res.get('suite_summary') and not res['suite_other_failures']))
    res['confirmed'] = bool(ok)
    res['repo_head'] = head
    res['what_i_ran'] = [meta['demo_cmd'] + '  (clean tree, then with patch.diff applied)'] + (['cargo nextest run --workspace --no-fail-fast --offline --test-threads 8  (with patch.diff applied; the demo test file is present and is the only failure allowed)'] if do_suite else [])
    meta = json.load(open(os.path.join(d, 'meta.json')))    # re-read: seedrun may have written results meanwhile
    meta['confirmed'] = res
    json.dump(meta, open(os.path.join(d, 'meta.json'), 'w'), indent=1)
    sh('git checkout -- . && git clean -fdq -e target')
    note('CONFIRMED' if ok else 'NOT CONFIRMED', json.dumps(res)[:400])
    return 0 if ok else 1


if __name__ == '__main__':
    sys.exit(main())
