#!/usr/bin/env python3
"""Run the registered checks against every seeded change (quick tier; thorough tier too when quick does not alarm),
write the outcomes and the why_missed notes into the meta.json files and regenerate seeded/README.md.
/repo must be clean and nothing else may apply patches to it meanwhile.   vc/seedall.py [seed ...]"""
import json, os, subprocess, sys
HERE = os.path.dirname(os.path.dirname(os.path.abspath(__file__)))
SD = os.path.join(HERE, 'seeded')
notes = json.load(open(os.path.join(SD, 'why_missed.json')))
seeds = sys.argv[1:] or sorted(d for d in os.listdir(SD) if os.path.isfile(os.path.join(SD, d, 'meta.json')))
for sid in seeds:
    mp = os.path.join(SD, sid, 'meta.json')
    subprocess.run([sys.executable, os.path.join(HERE, 'vc', 'seedrun.py'), sid], check=False)
    m = json.load(open(mp))
    if not any(v['exit'] == 1 for v in (m.get('checks') or {}).values()):
        subprocess.run([sys.executable, os.path.join(HERE, 'vc', 'seedrun.py'), sid, '--thorough'], check=False)
    else:
        m.pop('checks_thorough', None)
        json.dump(m, open(mp, 'w'), indent=1)
    m = json.load(open(mp))
    if sid in notes:
        m['why_missed'] = notes[sid]
    else:
        m.pop('why_missed', None)
    m['detected'] = any(v['exit'] == 1 for v in (m.get('checks') or {}).values()) or any(v['exit'] == 1 for v in (m.get('checks_thorough') or {}).values())
    json.dump(m, open(mp, 'w'), indent=1)
    print('==', sid, 'detected' if m['detected'] else 'NOT detected', flush=True)
subprocess.run([sys.executable, os.path.join(HERE, 'vc', 'seedreadme.py')], check=False)
