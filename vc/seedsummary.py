#!/usr/bin/env python3
"""Rewrite DESIGN.md section 12.4 (between the markers) from the seeded/*/meta.json files."""
import json, os, re
HERE = os.path.dirname(os.path.dirname(os.path.abspath(__file__)))
SD = os.path.join(HERE, 'seeded')
rows = []
stats = dict(quick=0, thorough=0, missed=0, undecided_quick=0)
for sid in sorted(os.listdir(SD)):
    mp = os.path.join(SD, sid, 'meta.json')
    if not os.path.isfile(mp):
        continue
    m = json.load(open(mp))
    def tier(key):
        out = []
        for p, r in (m.get(key) or {}).items():
            if r['exit'] == 1:
                obl = (r.get('obligations') or [{}])[0]
                fi = ' + failing input' if any(o.get('failing_input') for o in r.get('obligations', [])) or not any('no-failing-input-found' in l for l in r['lines'] if l.startswith('VIOLATION')) else ''
                out.append(f"{p}: VIOLATION ({obl.get('function', 'replay')}: {obl.get('kind', '')[:60]}){fi}")
            elif r['exit'] == 2:
                out.append(f'{p}: UNDECIDED')
            else:
                out.append(f'{p}: silent')
        return '; '.join(out)
    q_hit = any(r['exit'] == 1 for r in (m.get('checks') or {}).values())
    t_hit = any(r['exit'] == 1 for r in (m.get('checks_thorough') or {}).values())
    if q_hit:
        stats['quick'] += 1
    elif t_hit:
        stats['thorough'] += 1
    else:
        stats['missed'] += 1
    conf = (m.get('confirmed') or {}).get('confirmed')
    rows.append(f"| {sid} | {m['title']} | {tier('checks')} | {tier('checks_thorough') or '-'} | {'yes' if conf else ('no' if conf is False else 'pending')} |")
n = len(rows)
text = [f"{n} seeded changes are kept. Two more were discarded because the existing suite does NOT pass with them (`seeded/discarded/`): C10-2 (two existing",
        "tests, `until_proof_testing` and `until_term_encoding`, do not terminate) and C01-3 (`luminal_llama` and `luminal_llama_desugar` fail). Each was produced by a sub-agent that saw only the property text and",
        "its own scratch worktree, and confirmed by `vc/seedconfirm.py` (demo passes clean / fails patched / whole suite passes patched).",
        f"**{stats['quick']} are caught by the quick tier (a failed proof obligation of a function under contract), {stats['thorough']} only by the thorough tier's",
        f"dynamic replays (labelled dynamic, not proof), {stats['missed']} by neither** (C17-1: a two-thread interleaving of the concurrent union-find). Several quick-tier",
        "detections exist because the unit was strengthened after a first miss; `seeded/README.md` says so per seed (column \"if missed (or missed at first)\").",
        "", "| seed | change | quick tier | thorough tier (only run when quick is silent) | confirmed |", "|---|---|---|---|---|"] + rows
p = os.path.join(HERE, 'DESIGN.md')
s = open(p).read()
a = s.index('<!-- SEEDS-BEGIN -->')
b = s.index('<!-- SEEDS-END -->')
s = s[:a] + '<!-- SEEDS-BEGIN -->\n' + '\n'.join(text) + '\n' + s[b:]
open(p, 'w').write(s)
print(stats, n)
