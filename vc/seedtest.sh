#!/bin/sh
# dev helper: seedtest.sh <patch> <unit...> : apply a seeded patch on a scratch copy and run units
S=/var/tmp/mut/seed
mkdir -p $S
rsync -a --delete --exclude target --exclude .git /repo/ $S/
( cd $S && patch -p1 -s < $1 ) || { echo "PATCH DID NOT APPLY"; exit 3; }
shift
for u in "$@"; do echo "--- unit $u"; VERIF_REPO=$S /verif/check --unit $u 2>&1 | head -12; done
