#!/usr/bin/env python3
"""Regenerate /verif/MANIFEST.json from vc/properties.py (claimed checks) and NA below."""
import json
import os
import sys

HERE = os.path.dirname(os.path.dirname(os.path.abspath(__file__)))
sys.path.insert(0, os.path.join(HERE, 'vc'))
import properties as P  # noqa

NA = {
    'C01': 'check not built yet (planned: U-UF/U-MIN/U-DISP/U-REBUILD, DESIGN.md section 5)',
    'C02': 'mechanism is the free-join planner/executor (scoped-thread closures, DashMap, unsafe tries, hashbrown): rejected by Verus, Kani ICEs on hashbrown; plan independence is a relation between two executions, not a postcondition',
    'C03': 'check not built yet (planned: U-SEMI/U-REBUILD/U-MERGE)',
    'C04': 'check not built yet (planned: U-REBUILD/U-DISP)',
    'C05': 'check not built yet (planned: U-MERGE/U-MIN)',
    'C06': 'quantifies over OS thread schedules and compares two executions; Kani has no threads, Verus cannot be applied to the shard-partitioned unsafe writes without rewriting them over its permission types (a model, not the code)',
    'C07': 'extractor is FnMut closures over string-keyed HashMap entry APIs, dyn CostModel and ArcSort objects driven through a whole EGraph: outside Verus subset, Kani ICE (hashbrown); no contract within reach expresses membership or optimality',
    'C08': 'property is that derived Clone on ~40 types incl. Arc<RwLock<_>> handles is deep and compares two command histories; Verus has no account of interior mutability through Arc, a contract would assume exactly the fact in doubt',
    'C09': 'no-panic over all byte strings through lexer/parser/desugarer/typechecker is str/format! processing (no Verus str byte reasoning, CBMC cost explodes); atomicity relates two sessions',
    'C10': 'check not built yet (planned: U-SCHED)',
    'C11': 'translation validation over all source programs; the encoder generates rules whose semantics is the whole engine; no single-function contract expresses it',
    'C12': 'proof checker soundness needs a formal semantics of egglog programs as specification; checker code (hash-consed DAGs, string-keyed maps) is outside the Verus subset',
    'C13': 'check not built yet (planned: U-MERGE/U-MIN/U-ACT)',
    'C14': 'check not built yet (planned: U-CONT/U-MIN/U-REBUILD)',
    'C15': 'both directions are string producers/consumers (Display impls, float formatting, escaping, lexer); neither verifier reasons about str contents or format!',
    'C16': 'check not built yet (planned: U-DISP/U-SWT/U-OFF)',
    'C17': 'check not built yet',
    'C18': 'only a bounded Kani stand-in for Matches::instantiate was within reach (iterator adapters chunks/chain/once, sort_unstable, dedup, into_iter().rev() put it outside the Verus subset); the harness compiles with TableAction::insert and BaseValues::get stubbed but CBMC did not finish within the 15 min / 16 GB cap at 3 matches x 2 choices (sort_unstable/dedup/Vec growth dominate), and the rest of the mechanism (step_rules_with_scheduler, query/action rule split, delayed application modulo later unions) is whole-engine behaviour over closures; no contract within reach decides the property',
    'C19': 'purely a statement over thread schedules (lost wake-ups, scope exit, reader/writer exclusion); no installed deductive tool handles Rust threads or the ArcSwap/UnsafeCell protocol',
    'C20': 'a relation between two executions in different processes (hash seeds, addresses); no per-call postcondition expresses independence of address-space layout',
}


def main():
    checks = []
    for pid in sorted(P.PROPS):
        c = P.PROPS[pid]
        checks.append(dict(
            property_id=pid,
            quick_cmd=f'./check {pid} quick',
            thorough_cmd=f'./check {pid} thorough',
            evidence_file=f'/verif/evidence/{pid}.json',
            replay_cmd_template=f'./check {pid} --replay {{path}}',
            engine='vc',
            level_claimed=dict(category=c.get('category', 'proof'), text=c['level_text'], design_ref=c.get('design_ref', 'DESIGN.md section 5')),
            level_note=c['level_note'],
            technique=c.get('technique', 'contract-based deductive verification: Verus discharges requires/ensures/invariants spliced onto the real functions extracted from /repo on every run'),
        ))
    m = dict(
        version=1,
        setup_cmd='./setup.sh',
        hooks=dict(
            guard='cfg(kani) / verus! blocks exist only in generated scratch files; /repo carries no hooks',
            enable='none needed: every check extracts the functions under contract from /repo\'s working tree on every run (Verus) or copies the crate to a scratch dir and appends the harness module (Kani)',
            baseline_off_cmd='cd /repo && cargo test --workspace --no-fail-fast --offline',
            source_commits=[],
            add_only=True,
        ),
        engines=[dict(name='vc', path='/verif/vc', serves_properties=sorted(P.PROPS),
                      kind_free_text='extract real Rust functions + splice contracts -> Verus (unbounded); Kani function harnesses (loop-free = complete, unwound = bounded stand-in)')],
        checks=checks,
        not_applicable=[dict(property_id=k, reason=v) for k, v in sorted(NA.items()) if k not in P.PROPS],
        notes='Exit codes: 0 all obligations discharged (KNOWN-FINDING lines possible); 1 VIOLATION; 2 UNDECIDED (lost anchor, construct outside the verifier subset, resource limit) - never an alarm. See DESIGN.md.',
    )
    json.dump(m, open(os.path.join(HERE, 'MANIFEST.json'), 'w'), indent=1)


if __name__ == '__main__':
    main()
