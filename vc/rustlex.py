"""A small Rust lexer and item locator.

Understands: line/doc comments, nested block comments, string / raw string / byte string
literals, char literals vs lifetimes, identifiers, numbers, punctuation.  It is *not* a parser;
it finds items (fn / struct / enum / impl / trait / const / macro invocations) and balanced
delimiters, which is all the extractor and the splicer need.
"""
import re

ID_START = re.compile(r'[A-Za-z_]')
ID_REST = re.compile(r'[A-Za-z0-9_]*')


class Tok:
    __slots__ = ('kind', 'text', 'start', 'end')

    def __init__(self, kind, text, start, end):
        self.kind = kind      # 'id', 'punct', 'str', 'char', 'life', 'num', 'comment'
        self.text = text
        self.start = start
        self.end = end

    def __repr__(self):
        return f'Tok({self.kind},{self.text!r},{self.start})'


class LexError(Exception):
    pass


def lex(src, keep_comments=False):
    toks = []
    i = 0
    n = len(src)
    while i < n:
        c = src[i]
        if c in ' \t\r\n':
            i += 1
            continue
        if src.startswith('//', i):
            j = src.find('\n', i)
            if j < 0:
                j = n
            if keep_comments:
                toks.append(Tok('comment', src[i:j], i, j))
            i = j
            continue
        if src.startswith('/*', i):
            depth = 1
            j = i + 2
            while j < n and depth:
                if src.startswith('/*', j):
                    depth += 1
                    j += 2
                elif src.startswith('*/', j):
                    depth -= 1
                    j += 2
                else:
                    j += 1
            if depth:
                raise LexError('unterminated block comment')
            if keep_comments:
                toks.append(Tok('comment', src[i:j], i, j))
            i = j
            continue
        # raw strings / byte strings / c strings
        m = re.match(r'(?:b|c)?r(#*)"', src[i:i + 300])
        if m and (i == 0 or not (src[i - 1].isalnum() or src[i - 1] == '_')):
            hashes = m.group(1)
            close = '"' + hashes
            j = src.find(close, i + m.end())
            if j < 0:
                raise LexError('unterminated raw string')
            j += len(close)
            toks.append(Tok('str', src[i:j], i, j))
            i = j
            continue
        if c == '"' or (c in 'bc' and i + 1 < n and src[i + 1] == '"'
                        and (i == 0 or not (src[i - 1].isalnum() or src[i - 1] == '_'))):
            j = i + (1 if c == '"' else 2)
            while j < n and src[j] != '"':
                if src[j] == '\\':
                    j += 2
                else:
                    j += 1
            if j >= n:
                raise LexError('unterminated string')
            j += 1
            toks.append(Tok('str', src[i:j], i, j))
            i = j
            continue
        if c == "'" or (c == 'b' and i + 1 < n and src[i + 1] == "'"):
            k = i + (1 if c == "'" else 2)
            # char literal: '\..' or 'x' ; lifetime: 'ident not followed by '
            if k < n and src[k] == '\\':
                j = k + 2
                while j < n and src[j] != "'":
                    j += 1
                j += 1
                toks.append(Tok('char', src[i:j], i, j))
                i = j
                continue
            if k + 1 < n and src[k + 1] == "'" and src[k] != "'":
                j = k + 2
                toks.append(Tok('char', src[i:j], i, j))
                i = j
                continue
            if c == "'" and k < n and ID_START.match(src[k]):
                m2 = ID_REST.match(src, k + 1)
                j = m2.end()
                toks.append(Tok('life', src[i:j], i, j))
                i = j
                continue
            # multi-byte char literal like '\u{..}' handled above; unicode char
            j = src.find("'", k)
            if j < 0 or j - k > 8:
                raise LexError(f'bad quote at {i}')
            j += 1
            toks.append(Tok('char', src[i:j], i, j))
            i = j
            continue
        if ID_START.match(c):
            m2 = ID_REST.match(src, i + 1)
            j = m2.end()
            # raw identifier r#foo
            if src[i:j] == 'r' and j < n and src[j] == '#' and j + 1 < n and ID_START.match(src[j + 1]):
                m3 = ID_REST.match(src, j + 2)
                j = m3.end()
            toks.append(Tok('id', src[i:j], i, j))
            i = j
            continue
        if c.isdigit():
            m2 = re.compile(r'[0-9][0-9A-Za-z_]*(?:\.[0-9][0-9A-Za-z_]*)?').match(src, i)
            j = m2.end()
            toks.append(Tok('num', src[i:j], i, j))
            i = j
            continue
        # punctuation: single chars (multi-char operators are recognised where needed)
        toks.append(Tok('punct', c, i, i + 1))
        i += 1
    return toks


OPEN = {'{': '}', '(': ')', '[': ']'}
CLOSE = {'}', ')', ']'}


def match_close(toks, i):
    """toks[i] is an opening delimiter; return index of the matching closer."""
    assert toks[i].kind == 'punct' and toks[i].text in OPEN, toks[i]
    depth = 0
    j = i
    while j < len(toks):
        t = toks[j]
        if t.kind == 'punct':
            if t.text in OPEN:
                depth += 1
            elif t.text in CLOSE:
                depth -= 1
                if depth == 0:
                    return j
        j += 1
    raise LexError(f'unbalanced delimiter at {toks[i].start}')


def is_p(t, s):
    return t.kind == 'punct' and t.text == s


def is_id(t, s=None):
    return t.kind == 'id' and (s is None or t.text == s)


class Item:
    def __init__(self, kind, name, toks, first, last, header_end=None, body_open=None, body_close=None):
        self.kind = kind            # fn struct enum union trait impl mod const static type use macro
        self.name = name
        self.first = first          # token index of the first token (incl. attributes / vis)
        self.kw = None              # token index of the keyword
        self.last = last            # token index of the last token
        self.body_open = body_open  # token index of '{' (or None)
        self.body_close = body_close
        self.header = None          # normalised header text (impl / trait)

    def __repr__(self):
        return f'Item({self.kind},{self.name},{self.first}..{self.last})'


QUALS = {'default', 'const', 'unsafe', 'async', 'extern'}
ITEM_KW = {'fn', 'struct', 'enum', 'union', 'trait', 'impl', 'mod', 'const', 'static', 'type', 'use', 'macro_rules'}


def norm(toks, a, b):
    """Normalised text of tokens a..b (inclusive start, exclusive end): tokens joined by one space."""
    return ' '.join(t.text for t in toks[a:b] if t.kind != 'comment')


def parse_items(toks, lo, hi):
    """Parse the sequence of items in toks[lo:hi]."""
    items = []
    i = lo
    while i < hi:
        first = i
        # attributes
        while i < hi and is_p(toks[i], '#'):
            j = i + 1
            if j < hi and is_p(toks[j], '!'):
                j += 1
            if j < hi and is_p(toks[j], '['):
                i = match_close(toks, j) + 1
            else:
                break
        if i >= hi:
            break
        # visibility
        if is_id(toks[i], 'pub'):
            i += 1
            if i < hi and is_p(toks[i], '('):
                i = match_close(toks, i) + 1
        # extern crate x [as y];
        if i + 1 < hi and is_id(toks[i], 'extern') and is_id(toks[i + 1], 'crate'):
            j = i
            while not is_p(toks[j], ';'):
                j += 1
            it = Item('extern_crate', toks[i + 2].text, toks, first, j)
            it.kw = i
            items.append(it)
            i = j + 1
            continue
        # qualifiers
        while i < hi and is_id(toks[i]) and toks[i].text in QUALS:
            if toks[i].text == 'const' and not (i + 1 < hi and is_id(toks[i + 1]) and toks[i + 1].text in ('fn', 'unsafe', 'async', 'extern')):
                break
            if toks[i].text == 'unsafe' and i + 1 < hi and is_id(toks[i + 1]) and toks[i + 1].text in ('impl', 'trait'):
                i += 1
                break
            i += 1
            if toks[i - 1].text == 'extern' and i < hi and toks[i].kind == 'str':
                i += 1
        if i >= hi:
            break
        t = toks[i]
        kw = i
        if is_p(t, ';'):
            i += 1
            continue
        if t.kind == 'id' and t.text == 'macro_rules' and is_p(toks[i + 1], '!'):
            name = toks[i + 2].text
            j = i + 3
            k = match_close(toks, j)
            last = k
            if k + 1 < hi and is_p(toks[k + 1], ';'):
                last = k + 1
            it = Item('macro_rules', name, toks, first, last)
            it.kw = kw
            items.append(it)
            i = last + 1
            continue
        if t.kind == 'id' and t.text in ('fn',):
            name = toks[i + 1].text
            j = i + 2
            while j < hi and not (is_p(toks[j], '{') or is_p(toks[j], ';')):
                if toks[j].kind == 'punct' and toks[j].text in ('(', '['):
                    j = match_close(toks, j)
                j += 1
            if is_p(toks[j], ';'):
                it = Item('fn', name, toks, first, j)
            else:
                k = match_close(toks, j)
                it = Item('fn', name, toks, first, k, body_open=j, body_close=k)
            it.kw = kw
            items.append(it)
            i = it.last + 1
            continue
        if t.kind == 'id' and t.text in ('struct', 'enum', 'union', 'trait', 'mod', 'impl'):
            if t.text == 'impl':
                name = None
            else:
                name = toks[i + 1].text
            j = i + 1
            while j < hi and not (is_p(toks[j], '{') or is_p(toks[j], ';')):
                if toks[j].kind == 'punct' and toks[j].text in ('(', '['):
                    j = match_close(toks, j)
                j += 1
            if is_p(toks[j], ';'):
                it = Item(t.text, name, toks, first, j)
            else:
                k = match_close(toks, j)
                it = Item(t.text, name, toks, first, k, body_open=j, body_close=k)
                it.header = norm(toks, kw, j)
            it.kw = kw
            items.append(it)
            i = it.last + 1
            continue
        if t.kind == 'id' and t.text in ('const', 'static', 'type', 'use'):
            name = toks[i + 1].text
            if name == 'mut':
                name = toks[i + 2].text
            j = i + 1
            while j < hi and not is_p(toks[j], ';'):
                if toks[j].kind == 'punct' and toks[j].text in OPEN:
                    j = match_close(toks, j)
                j += 1
            it = Item(t.text, name, toks, first, j)
            it.kw = kw
            items.append(it)
            i = j + 1
            continue
        # macro invocation item: path ! (...) ; or path ! {...}
        j = i
        while j < hi and (toks[j].kind == 'id' or is_p(toks[j], ':')):
            j += 1
        if j < hi and is_p(toks[j], '!') and j + 1 < hi and toks[j + 1].kind == 'punct' and toks[j + 1].text in OPEN:
            k = match_close(toks, j + 1)
            last = k
            if k + 1 < hi and is_p(toks[k + 1], ';'):
                last = k + 1
            it = Item('macro', norm(toks, i, j), toks, first, last, body_open=j + 1, body_close=k)
            it.kw = kw
            items.append(it)
            i = last + 1
            continue
        raise LexError(f'cannot parse item at offset {t.start}: {t.text!r}')
    return items


def line_of(src, off):
    return src.count('\n', 0, off) + 1
