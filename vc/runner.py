"""Run the verifier on a generated unit, classify diagnostics, and summarise.

Verdict policy (DESIGN.md 3.3):
  * verification failure (postcondition / precondition / invariant / assertion / decreases / overflow)
    inside an extracted /repo function                                        -> VIOLATION
  * anything else that keeps Verus from deciding (rustc error, VIR error, lost anchor, rlimit,
    failure inside hand-written lemma text, canary that verifies)              -> UNDECIDED
"""
import json
import os
import re
import shutil
import subprocess
import sys
import time
import hashlib

sys.path.insert(0, os.path.dirname(os.path.abspath(__file__)))
import gen as G  # noqa: E402

VERIF = G.VERIF
VERUS = os.environ.get('VERIF_VERUS', 'verus')
RLIMIT = os.environ.get('VERIF_RLIMIT', '100')

VERIF_KINDS = [
    'postcondition not satisfied',
    'precondition not satisfied',
    'invariant not satisfied',
    'loop invariant not satisfied',
    'assertion failed',
    'decreases not satisfied',
    'possible arithmetic underflow/overflow',
    'possible division by zero',
    'possible bit shift underflow/overflow',
    'unable to prove',
    'could not prove termination',
    'fails to satisfy',
    'may fail to meet its declared type invariant',
    'cannot show',
    'unreachable!() or unimplemented!() might be reachable',
    'termination checking',
]
RESOURCE_KINDS = ['Resource limit (rlimit) exceeded', 'while loop: Resource limit', 'rlimit']

ASSUME_PATTERNS = [
    (re.compile(r'\bassume\s*\('), 'assume'),
    (re.compile(r'\badmit\s*\('), 'admit'),
    (re.compile(r'external_body'), 'external_body'),
    (re.compile(r'\bassume_specification\b'), 'assume_specification'),
    (re.compile(r'\baxiom\s+fn\b'), 'axiom'),
    (re.compile(r'verifier::external\b'), 'external'),
    (re.compile(r'\buninterp\b'), 'uninterp'),
    (re.compile(r'\bglobal\s+size_of\b'), 'target-assumption'),
    (re.compile(r'exec_allows_no_decreases_clause'), 'no-termination-proof'),
]


def workdir():
    d = os.environ.get('VERIF_WORK') or f'/var/tmp/verif-work/{os.getpid()}'
    os.makedirs(d, exist_ok=True)
    return d


def cleanup_workdir():
    if os.environ.get('VERIF_WORK'):
        return
    d = f'/var/tmp/verif-work/{os.getpid()}'
    shutil.rmtree(d, ignore_errors=True)
    try:
        os.rmdir('/var/tmp/verif-work')
    except OSError:
        pass


def classify(msg):
    for k in RESOURCE_KINDS:
        if k in msg:
            return 'resource'
    for k in VERIF_KINDS:
        if k in msg:
            return 'verif'
    return 'other'


def scan_assumptions(gen):
    """Mechanical scan of the generated file for trusted constructs."""
    out = []
    lines = gen.out.lines + [gen.out.cur]
    for n, l in enumerate(lines):
        code = l.split('//')[0]
        for rx, what in ASSUME_PATTERNS:
            if rx.search(code):
                # describe with the next non-empty signature-ish text
                ctx = code.strip()
                if what in ('external_body', 'external') or len(ctx) < 25:
                    for m in range(n + 1, min(n + 4, len(lines))):
                        if lines[m].strip():
                            ctx += ' ' + lines[m].strip()
                            break
                org = gen.out.origin[n] if n < len(gen.out.origin) else None
                where = ''
                if org and org[0] in ('unit', 'repo'):
                    where = f'{os.path.relpath(org[1], VERIF) if org[0] == "unit" else org[1]}:{org[2]}'
                out.append(f'{what}: {ctx[:160]} [{where}]')
    return out


def map_line(gen, n):
    """generated line number (1-based) -> printable origin"""
    if 1 <= n <= len(gen.out.origin):
        o = gen.out.origin[n - 1]
        if o is None:
            # search backwards
            for m in range(n - 2, -1, -1):
                if gen.out.origin[m] is not None:
                    o = gen.out.origin[m]
                    break
        if o is not None:
            if o[0] == 'repo':
                return f'/repo/{o[1]}:{o[2]}'
            if o[0] == 'unit':
                return f'{os.path.relpath(o[1], VERIF)}:{o[2]}'
    return f'generated:{n}'


def fn_at(gen, n):
    for f in gen.functions:
        if f['gen_start'] <= n <= f['gen_end']:
            return f
    return None


def run_unit(unit, canaries=True, keep=None):
    """Returns a result dict for one Verus unit. If Verus cannot resolve a name that is a `const` of a repo file the
    unit extracts from, the constant is extracted too and the unit is run again (extraction closure, once)."""
    res = _run_unit(unit, canaries, keep, extra=None)
    if res['status'] == 'undecided' and res.get('other_errors'):
        names = set()
        for e in res['other_errors']:
            m = re.search(r'cannot find value `([A-Za-z_][A-Za-z0-9_]*)` in this scope', e['kind'])
            if m:
                names.add(m.group(1))
        extra = []
        rels = sorted(set(f['rel'] for f in res.get('gen_functions', [])))
        for n in sorted(names):
            for rel in rels:
                try:
                    sf = G.SrcFile.get(rel)
                    sf.find_item('const', n)
                    extra.append((rel, 'const', n))
                    break
                except G.LostAnchor:
                    continue
        if extra:
            res2 = _run_unit(unit, canaries, keep, extra=extra)
            res2['auto_extracted'] = [f'{k} {n} from {rel}' for rel, k, n in extra]
            return res2
    return res


def _run_unit(unit, canaries=True, keep=None, extra=None):
    t0 = time.time()
    res = dict(unit=unit, backend='verus', status='undecided', reason='', failures=[], functions=[],
               obligations=0, discharged=0, canaries=[], assumptions=[], rewrites=[], dropped={},
               clauses=[], smt_ms=0, wall_s=0.0, cmd='', infra_failures=[])
    upath = os.path.join(VERIF, 'units', unit, 'unit.vs')
    try:
        gen = G.generate(upath, canaries=canaries, extra=extra)
    except G.LostAnchor as e:
        res['reason'] = f'lost-anchor: {e}'
        res['wall_s'] = time.time() - t0
        return res
    wd = workdir()
    fname = f'u_{unit}.rs'
    path = os.path.join(wd, fname)
    text = gen.out.text()
    with open(path, 'w') as f:
        f.write(text)
    if keep:
        shutil.copy(path, keep)
    cmd = [VERUS, fname, '--edition', '2024', '--output-json', '--time-expanded', '--multiple-errors', '8',
           '--triggers-mode', 'silent', '--rlimit', RLIMIT] + os.environ.get('VERIF_VERUS_EXTRA', '').split() + ['--', '--error-format=json']
    res['cmd'] = ' '.join(cmd) + f'   (file generated from units/{unit}/unit.vs + /repo working tree)'
    try:
        p = subprocess.run(cmd, cwd=wd, capture_output=True, text=True, timeout=int(os.environ.get('VERIF_VERUS_TIMEOUT', '900')))
    except subprocess.TimeoutExpired:
        res['reason'] = 'verus timeout'
        res['wall_s'] = time.time() - t0
        return res
    res['gen_functions'] = gen.functions
    res['assumptions'] = scan_assumptions(gen)
    res['rewrites'] = sorted(set(f'{r} at /repo/{rel}:{ln}' for r, rel, ln in gen.rewrites))
    res['dropped'] = gen.dropped
    res['projected'] = [f'{rel}: struct {nm} projected, dropped fields {dr}' for rel, nm, dr in gen.projected]
    res['clauses'] = gen.clauses
    res['gen_functions'] = gen.functions
    # ---- stdout: json summary
    try:
        out = json.loads(p.stdout)
    except Exception:
        out = None
    # ---- stderr: diagnostics
    diags = []
    raw_err = []
    for l in p.stderr.split('\n'):
        l = l.strip()
        if not l:
            continue
        if l.startswith('{'):
            try:
                diags.append(json.loads(l))
                continue
            except Exception:
                pass
        raw_err.append(l)
    other_errors = []
    resource = []
    fails = []
    for d in diags:
        if d.get('level') != 'error':
            continue
        msg = d.get('message', '')
        if msg.startswith('aborting due to'):
            continue
        kind = classify(msg)
        if d.get('code') is not None:
            kind = 'other'      # rustc diagnostics carry an error code (E0277 ...); verifier diagnostics never do
        spans = d.get('spans', [])
        prim = [s for s in spans if s.get('is_primary')]
        order = prim + [s for s in spans if not s.get('is_primary')]
        fn = None
        for s in order:
            fn = fn_at(gen, s['line_start'])
            if fn:
                break
        rec = dict(kind=msg, fn=fn['name'] if fn else None, qual=fn['qual'] if fn else '',
                   canary=bool(fn and fn['canary']), spans=[], rendered=d.get('rendered', ''))
        for s in order:
            txt = ' '.join(t['text'].strip() for t in s.get('text', []))[:300]
            rec['spans'].append(dict(label=s.get('label'), primary=s.get('is_primary'), gen_line=s['line_start'],
                                     origin=map_line(gen, s['line_start']), text=txt))
        if kind == 'resource':
            resource.append(rec)
        elif kind == 'verif':
            fails.append(rec)
        else:
            other_errors.append(rec)
    if out is None:
        res['reason'] = 'verus produced no JSON summary: ' + ' | '.join(raw_err[:3])
        res['wall_s'] = time.time() - t0
        return res
    vr = out.get('verification-results', {})
    if other_errors or vr.get('encountered-vir-error'):
        msgs = '; '.join(f"{e['kind']} @ {e['spans'][0]['origin'] if e['spans'] else '?'}" for e in other_errors[:4])
        res['reason'] = f'verus could not process the unit (rustc/VIR error): {msgs}'
        res['other_errors'] = other_errors
        res['wall_s'] = time.time() - t0
        return res
    # ---- per-function results
    breakdown = []
    try:
        for m in out['times-ms']['smt']['smt-run-module-times']:
            for f in m.get('function-breakdown', []):
                breakdown.append(f)
        res['smt_ms'] = out['times-ms']['smt']['smt-run']
    except Exception:
        pass
    canary_names = set(f['name'] for f in gen.functions if f['canary'])
    real_names = set(f['name'] for f in gen.functions if not f['canary'])
    bodiless = set(f['name'] for f in gen.functions if f.get('bodiless'))
    canary_failed = set(r['fn'] for r in fails if r['canary'])
    failed_fns = set(r['fn'] for r in fails if r['fn'] and not r['canary'])
    # canary must fail with the `false` postcondition
    canary_ok = {}
    for r in fails:
        if r['canary'] and 'postcondition' in r['kind']:
            if any('false' in s['text'] for s in r['spans']):
                canary_ok[r['fn']] = True
    # a canary on which the solver gives up has not verified `false` either
    for r in resource:
        if r['canary']:
            canary_ok[r['fn']] = True
    resource = [r for r in resource if not r['canary']]
    for c in sorted(canary_names):
        res['canaries'].append(dict(fn=c, failed_as_required=bool(canary_ok.get(c))))
    obligations = []
    for f in breakdown:
        short = f['function'].split('::')[-1]
        if short in canary_names:
            continue
        is_repo = short in real_names
        ok = bool(f.get('success')) and not (is_repo and short in failed_fns)
        obligations.append(dict(function=f['function'], mode=f.get('mode:', f.get('mode')), repo_code=is_repo,
                                ok=ok, smt_us=f.get('time-micros'), rlimit=f.get('rlimit')))
    res['functions'] = obligations
    res['obligations'] = len(obligations)
    res['discharged'] = sum(1 for o in obligations if o['ok'])
    real_fails = [r for r in fails if not r['canary'] and r['fn']]
    infra_fails = [r for r in fails if not r['fn']]
    res['failures'] = real_fails
    res['infra_failures'] = infra_fails
    res['wall_s'] = time.time() - t0
    if resource:
        res['status'] = 'undecided'
        res['reason'] = 'resource limit exceeded in: ' + ', '.join(str(r['fn']) for r in resource)
        if not real_fails:
            return res
    if real_fails:
        res['status'] = 'violation'
        return res
    if infra_fails:
        res['status'] = 'undecided'
        res['reason'] = 'a hand-written lemma/spec of the unit failed to verify: ' + '; '.join(
            f"{r['kind']} @ {r['spans'][0]['origin']}" for r in infra_fails[:3])
        return res
    bad_canaries = [c['fn'] for c in res['canaries'] if not c['failed_as_required']]
    if bad_canaries:
        res['status'] = 'undecided'
        res['reason'] = 'vacuity guard: canary verified `ensures false` for ' + ', '.join(bad_canaries)
        return res
    if res['obligations'] == 0 or not real_names:
        res['status'] = 'undecided'
        res['reason'] = 'vacuity guard: no obligations generated'
        return res
    missing = [n for n in real_names if n not in bodiless and not any(o['function'].split('::')[-1] == n for o in obligations)]
    if missing:
        res['status'] = 'undecided'
        res['reason'] = 'vacuity guard: no verification query was generated for ' + ', '.join(sorted(missing))
        return res
    if res['discharged'] != res['obligations']:
        res['status'] = 'undecided'
        res['reason'] = 'some queries did not succeed without a diagnostic'
        return res
    res['status'] = 'ok'
    return res


def obligation_id(unit, rec):
    clause = ''
    site = ''
    for s in rec['spans']:
        lab = (s.get('label') or '')
        if 'failed' in lab:
            clause = s['text']
        elif lab.startswith('at '):
            site = s['text']
    if not clause and rec['spans']:
        clause = rec['spans'][0]['text']
    norm = lambda x: re.sub(r'\s+', ' ', x).strip()
    return dict(unit=unit, function=(rec.get('qual') or '') + (rec['fn'] or ''), kind=rec['kind'],
                clause=norm(clause), site=norm(site),
                id=hashlib.sha256((unit + (rec['fn'] or '') + rec['kind'] + norm(clause) + norm(site)).encode()).hexdigest()[:12])


if __name__ == '__main__':
    r = run_unit(sys.argv[1], keep=(sys.argv[2] if len(sys.argv) > 2 else None))
    brief = {k: v for k, v in r.items() if k not in ('clauses', 'gen_functions', 'functions', 'assumptions')}
    for f in brief.get('failures', []):
        f.pop('rendered', None)
    print(json.dumps(brief, indent=1)[:6000])
    cleanup_workdir()
