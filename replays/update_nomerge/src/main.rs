//! Replay harness (C05, last sentence): two different values written to one key of a :no-merge function through the
//! Rust API (`EGraph::update` -> bridge `flush_updates`) must raise an error instead of silently keeping either, and the
//! error must be raised by the command that caused it, not by a later, unrelated one.
//! Prints `FAILING-INPUT: ...` and exits 1 when the property is violated on the real code.
use egglog::prelude::*;
use egglog::Error;

fn main() {
    let mut eg = EGraph::default();
    eg.parse_and_run_program(None, "(function f (i64) i64 :no-merge)\n(relation r (i64))\n(rule ((r x)) ((r (+ x 1))) :ruleset _none)".replace(":ruleset _none", "").as_str())
        .unwrap();
    let first: Result<(), Error> = eg.update(|mut fs| fs.set("f", (1_i64,), 42_i64));
    assert!(first.is_ok(), "first write must succeed: {first:?}");
    let second: Result<(), Error> = eg.update(|mut fs| fs.set("f", (1_i64,), 43_i64));
    let stored = eg
        .update(|fs| fs.lookup("f", 1_i64))
        .ok()
        .flatten()
        .map(|v| eg.value_to_base::<i64>(v));
    // an unrelated later command: must not inherit the conflict's error
    let later = eg.parse_and_run_program(None, "(r 0)\n(run 1)");
    let mut bad = Vec::new();
    if second.is_ok() {
        bad.push(format!("the conflicting write was accepted silently (stored value now {stored:?})"));
    }
    if let Err(e) = &later {
        bad.push(format!("a later unrelated `(run 1)` reported: {e}"));
    }
    if !bad.is_empty() {
        println!("FAILING-INPUT: (function f (i64) i64 :no-merge); update(set f 1 42); update(set f 1 43); (r 0) (run 1) => {}", bad.join("; "));
        std::process::exit(1);
    }
    println!("ok: conflicting write reported: {:?}", second.err().map(|e| e.to_string()));
}
