//! Replay harness for C16 (the table store behaves like a keyed map) on the parts of SortedWritesTable / Database
//! that no verifier reaches: a keyed map model is compared with the real table through the public API across
//! staged inserts, staged removals, merges, and CLONES taken while writes are still pending; after every step the point
//! lookups, the full scan and every constraint kind (on the value column and on the sort column, through `refine` and
//! through `fast_subset`) are compared with the model.
use egglog_core_relations::{ColumnId, Constraint, Database, SortedWritesTable, Value};
use egglog_numeric_id::NumericId;
use std::collections::BTreeMap;

fn v(x: usize) -> Value {
    Value::from_usize(x)
}

fn table() -> SortedWritesTable {
    // one key column, one value column, one timestamp column (sort column); on a collision the incoming row wins
    SortedWritesTable::new(
        1,
        3,
        Some(ColumnId::new(2)),
        vec![],
        Box::new(|_, cur, new, out| {
            if cur[1] != new[1] {
                out.extend_from_slice(new);
                true
            } else {
                false
            }
        }),
    )
}

type Model = BTreeMap<usize, (usize, usize)>; // key -> (value, timestamp)

fn keys_of(tab: &egglog_core_relations::WrappedTable, sub: egglog_core_relations::Subset) -> Vec<usize> {
    let buf = tab.scan(sub.as_ref());
    let mut ks: Vec<usize> = buf.non_stale().map(|(_, row)| row[0].index()).collect();
    ks.sort();
    ks
}

fn check(db: &Database, t: egglog_core_relations::TableId, model: &Model, what: &str) -> Result<(), String> {
    let tab = db.get_table(t);
    if tab.len() != model.len() {
        return Err(format!("{what}: len() = {}, model has {}", tab.len(), model.len()));
    }
    for k in 0..6usize {
        let got = tab.get_row(&[v(k)]).map(|r| r.vals[1].index());
        let want = model.get(&k).map(|x| x.0);
        if got != want {
            return Err(format!("{what}: get_row({k}) value = {got:?}, model says {want:?}"));
        }
    }
    let all = keys_of(tab, tab.refine_live(tab.all()));
    let want_all: Vec<usize> = model.keys().copied().collect();
    if all != want_all {
        return Err(format!("{what}: full scan gives keys {all:?}, model has {want_all:?}"));
    }
    // every constraint kind on the value column (1) and on the sort column (2), constants around the stored values
    for col in [1usize, 2] {
        let consts: Vec<usize> = if col == 1 { vec![9, 10, 11, 20, 21, 30, 31] } else { (0..8).collect() };
        for c in consts {
            let cid = ColumnId::from_usize(col);
            let cases: [(&str, Constraint, fn(usize, usize) -> bool); 5] = [
                ("Eq", Constraint::EqConst { col: cid, val: v(c) }, |x, c| x == c),
                ("Lt", Constraint::LtConst { col: cid, val: v(c) }, |x, c| x < c),
                ("Gt", Constraint::GtConst { col: cid, val: v(c) }, |x, c| x > c),
                ("Le", Constraint::LeConst { col: cid, val: v(c) }, |x, c| x <= c),
                ("Ge", Constraint::GeConst { col: cid, val: v(c) }, |x, c| x >= c),
            ];
            for (name, cons, pred) in cases {
                let want: Vec<usize> = model.iter().filter(|(_, vt)| pred(if col == 1 { vt.0 } else { vt.1 }, c)).map(|(k, _)| *k).collect();
                let got = keys_of(tab, tab.refine(tab.refine_live(tab.all()), std::slice::from_ref(&cons)));
                if got != want {
                    return Err(format!("{what}: refine(col {col} {name} {c}) gives keys {got:?}, model says {want:?}"));
                }
                if let Some(fast) = tab.fast_subset(&cons) {
                    let got = keys_of(tab, tab.refine_live(fast));
                    if got != want {
                        return Err(format!("{what}: fast_subset(col {col} {name} {c}) gives keys {got:?}, model says {want:?}"));
                    }
                }
            }
        }
    }
    Ok(())
}

fn scenario(clone_at: usize) -> Result<(), String> {
    let mut db = Database::new();
    let t = db.add_table(table(), std::iter::empty(), std::iter::empty());
    let mut model: Model = BTreeMap::new();
    // a fixed little history: (op, key, value); ts grows with the step
    let ops: [(&str, usize, usize); 6] = [("ins", 1, 10), ("ins", 2, 20), ("ins", 1, 11), ("del", 2, 0), ("ins", 3, 30), ("ins", 2, 21)];
    for (step, (op, k, val)) in ops.iter().enumerate() {
        {
            let mut buf = db.new_buffer(t);
            match *op {
                "ins" => buf.stage_insert(&[v(*k), v(*val), v(step)]),
                _ => buf.stage_remove(&[v(*k)]),
            }
        }
        let before = model.clone();
        match *op {
            "ins" => {
                // the incoming row wins unless it carries the stored value (then nothing changes, old timestamp kept)
                if model.get(k).map(|x| x.0) != Some(*val) {
                    model.insert(*k, (*val, step));
                }
            }
            _ => {
                model.remove(k);
            }
        }
        if step == clone_at {
            // a snapshot taken while the write of this step is still pending
            let mut snap = db.clone();
            db.merge_all();
            check(&db, t, &model, &format!("original after clone at step {step}"))?;
            snap.merge_all();
            // whether a snapshot carries writes that were still pending is not part of the property: accept both
            if check(&snap, t, &model, "clone").is_err() {
                check(&snap, t, &before, &format!("clone taken at step {step} (neither with nor without the pending write)"))?;
            }
        } else {
            db.merge_all();
            check(&db, t, &model, &format!("after step {step}"))?;
        }
    }
    Ok(())
}

/// clears interleaved with staged writes: after `clear_table` the table is the empty map, whatever was stored and
/// whatever was staged but not merged yet (Database::clear_table drops pending writes), also when the table held no row
/// at the time of the clear (never populated, or cleared twice in a row)
fn clear_scenario(populate_first: bool, second_clear: bool) -> Result<(), String> {
    let mut db = Database::new();
    let t = db.add_table(table(), std::iter::empty(), std::iter::empty());
    let mut model: Model = BTreeMap::new();
    if populate_first {
        db.new_buffer(t).stage_insert(&[v(1), v(10), v(0)]);
        db.merge_all();
        model.insert(1, (10, 0));
        check(&db, t, &model, "populated")?;
    }
    db.new_buffer(t).stage_insert(&[v(2), v(20), v(1)]);
    db.new_buffer(t).stage_remove(&[v(1)]);
    db.clear_table(t);
    model.clear();
    if second_clear {
        db.new_buffer(t).stage_insert(&[v(3), v(30), v(2)]);
        db.clear_table(t);
    }
    db.merge_all();
    check(&db, t, &model, "after stage; clear_table; merge")?;
    // the table keeps working as a map afterwards
    db.new_buffer(t).stage_insert(&[v(4), v(11), v(3)]);
    db.merge_all();
    model.insert(4, (11, 3));
    check(&db, t, &model, "insert after clear")
}

fn main() {
    for (populate_first, second_clear) in [(true, false), (false, false), (true, true), (false, true)] {
        if let Err(e) = clear_scenario(populate_first, second_clear) {
            println!("FAILING-INPUT: history {}stage ins(2,20) del(1); clear_table{}; merge: {e}",
                if populate_first { "ins(1,10) merge; " } else { "" }, if second_clear { "; stage ins(3,30); clear_table" } else { "" });
            std::process::exit(1);
        }
    }
    for clone_at in 0..7usize {
        if let Err(e) = scenario(clone_at) {
            println!("FAILING-INPUT: history ins(1,10) ins(2,20) ins(1,11) del(2) ins(3,30) ins(2,21), clone before merging step {clone_at}: {e}");
            std::process::exit(1);
        }
    }
    println!("no failing input among 7 + 4 scenarios");
}
