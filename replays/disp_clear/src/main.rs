//! Replay harness for U-DISP obligation `DisplacedTable::clear: inv() holds afterwards`
//! (C16: the table store behaves like a keyed map). Enumerates small union histories, clears the
//! table through the public `Database::clear_table`, then evaluates the executable form of the
//! postcondition on the real code: after `clear` no key may be present and no lookup may panic.
use egglog_core_relations::{Database, DisplacedTable, Table, Value};
use egglog_numeric_id::NumericId;
use std::panic::{AssertUnwindSafe, catch_unwind};

fn v(x: usize) -> Value {
    Value::from_usize(x)
}

fn main() {
    std::panic::set_hook(Box::new(|_| {}));
    let n = 4usize;
    let mut tried = 0u64;
    // all sequences of up to 3 unions over ids 0..n
    let pairs: Vec<(usize, usize)> = (0..n).flat_map(|a| (0..n).map(move |b| (a, b))).collect();
    for len in 1..=3usize {
        let mut idx = vec![0usize; len];
        loop {
            tried += 1;
            let hist: Vec<(usize, usize)> = idx.iter().map(|&i| pairs[i]).collect();
            let mut db = Database::new();
            let uf = db.add_table(DisplacedTable::default(), std::iter::empty(), std::iter::empty());
            for (t, (a, b)) in hist.iter().enumerate() {
                {
                    let mut buf = db.new_buffer(uf);
                    buf.stage_insert(&[v(*a), v(*b), v(t)]);
                }
                db.merge_all();
            }
            db.clear_table(uf);
            for k in 0..n {
                let r = catch_unwind(AssertUnwindSafe(|| db.get_table(uf).get_row(&[v(k)]).map(|r| r.vals.to_vec())));
                let bad = match &r {
                    Ok(None) => None,
                    Ok(Some(row)) => Some(format!("row {row:?} still present")),
                    Err(_) => Some("lookup panicked".to_string()),
                };
                if let Some(what) = bad {
                    println!("FAILING-INPUT: unions {hist:?} then clear_table(uf) then get_row([{k}]): {what}");
                    std::process::exit(1);
                }
            }
            // next index vector
            let mut p = 0;
            loop {
                if p == len {
                    break;
                }
                idx[p] += 1;
                if idx[p] < pairs.len() {
                    break;
                }
                idx[p] = 0;
                p += 1;
            }
            if p == len {
                break;
            }
        }
    }
    println!("no failing input among {tried} histories");
}
