#!/bin/sh
# Offline setup: nothing to build; verify the tools are present.
set -e
command -v verus >/dev/null
command -v python3 >/dev/null
echo "verif setup ok"
